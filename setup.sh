#!/bin/bash
# MANIFEST.setup_cmd: offline, from files on disk only.
# Installs the runtime-contract libraries (icontract, deal) from the offline wheelhouse into
# /verif/.deps (appended to sys.path by vf/bootstrap.py, never shadowing /venv).
HERE="$(cd "$(dirname "${BASH_SOURCE[0]}")" && pwd)"
cd "$HERE" || exit 1
export PIP_NO_INDEX=1 PIP_DISABLE_PIP_VERSION_CHECK=1
mkdir -p .deps .work evidence replays
/venv/bin/python - <<'PY'
import sys
sys.path.insert(0, '.')
from vf import bootstrap
ok = bootstrap.ensure_deps()
print('deps installed:', ok)
bootstrap.setup()
import plinio, torch
print('plinio from', plinio.__file__, 'torch', torch.__version__)
try:
    import icontract, deal
    print('icontract', icontract.__version__, 'deal ok')
except Exception as e:
    print('contracts unavailable:', e)
PY
exit 0
