import json, sys, random
sys.path.insert(0,'/verif')
from vf import bootstrap; bootstrap.setup()
from vf.gen import pitgen
rp = json.load(open(sys.argv[1]))
case = rp['case']
print({k:v for k,v in case.items()})
if 'prog_seed' in case:
    opts = json.loads(sys.argv[2]) if len(sys.argv)>2 else {}
    prog = pitgen.gen_valid_program(random.Random(case['prog_seed']), family=case.get('family'), opts=opts)
    print('inputs', prog['inputs'], 'out', prog['out'], 'excluded', prog['excluded'])
    for op in prog['ops']:
        print('  ', {k:v for k,v in op.items()})
print(json.dumps(rp['detail'])[:1500])
