#!/bin/bash
# confirm_round.sh <prefix> <ID> <X_for_A> <X_for_B>   -> files seeded/<ID>-<X> if confirmed; logs to /tmp/confirm_<ID>.log
P=$1; ID=$2; XA=$3; XB=$4
cd /verif
( python3 tools/confirm_seeded.py $ID $XA ${P}_$ID unit_test --src A --needs "see author notes" ;
  python3 tools/confirm_seeded.py $ID $XB ${P}_$ID unit_test --src B --needs "see author notes" ) > /tmp/confirm_$ID.log 2>&1
echo "confirm $ID done: $(grep -c '"confirmed": true' /tmp/confirm_$ID.log) of 2"
