#!/usr/bin/env python3
"""Confirm a seeded defect delivered by a sub-agent and file it under /verif/seeded/<ID>-<X>/.

usage: confirm_seeded.py <ID> <X> <agent_worktree> <tests> [--needs "..."] [--src A|B]
  <tests>: space-separated pytest targets relative to the repo root (the relevant sub-directories)

Steps (all in a fresh scratch worktree of /repo's HEAD, removed afterwards):
  1. demo on the unmodified tree        -> must exit 0
  2. apply the patch, demo again        -> must exit non-zero
  3. the given tests with the patch     -> no failure outside the known always_fail set
Writes patch.diff, demo.py, meta.json (what was run, results)."""
import json
import os
import re
import shutil
import subprocess
import sys
import tempfile

ALWAYS_FAIL = ('test_mpic_latency', 'test_backend_match', 'test_backend_maupiti', 'test_qinfo_layer')


def run(cmd, cwd, env, timeout=7200):
    r = subprocess.run(cmd, cwd=cwd, env=env, capture_output=True, text=True, timeout=timeout)
    return r.returncode, (r.stdout or '') + (r.stderr or '')


def main():
    pid, x, awt, tests = sys.argv[1:5]
    needs = sys.argv[sys.argv.index('--needs') + 1] if '--needs' in sys.argv else ''
    src = os.path.join(awt, 'MUTATION')
    sx = sys.argv[sys.argv.index('--src') + 1] if '--src' in sys.argv else x   # agent's letter (A/B)
    patch, demo = os.path.join(src, f'{sx}.diff'), os.path.join(src, f'{sx}_demo.py')
    wt = tempfile.mkdtemp(prefix='vf_confirm_', dir='/tmp')
    os.rmdir(wt)
    res = {'property': pid, 'variant': x}
    try:
        subprocess.run(['git', '-C', '/repo', 'worktree', 'add', '-q', '--detach', wt, 'HEAD'],
                       check=True)
        os.makedirs(os.path.join(wt, 'MUTATION'))
        # demos refer to their own worktree path: rewrite to the scratch one
        txt = open(demo).read().replace(awt, wt)
        open(os.path.join(wt, 'MUTATION', 'demo.py'), 'w').write(txt)
        env = dict(os.environ, PYTHONPATH=wt, OMP_NUM_THREADS="1", MKL_NUM_THREADS="1")
        env.pop('VERIF_REPO', None)
        py = '/venv/bin/python'
        rc0, out0 = run([py, 'MUTATION/demo.py'], wt, env)
        res['demo_unmodified'] = {'rc': rc0, 'tail': out0[-300:]}
        r = subprocess.run(['git', '-C', wt, 'apply', patch], capture_output=True, text=True)
        res['patch_applies'] = r.returncode == 0
        rc1, out1 = run([py, 'MUTATION/demo.py'], wt, env)
        res['demo_with_change'] = {'rc': rc1, 'tail': out1[-400:]}
        cmd = [py, '-m', 'pytest', '-q', '-p', 'no:cacheprovider', '--continue-on-collection-errors',
               ] + tests.split()
        rct, outt = run(cmd, wt, env)
        failed = re.findall(r'^(?:FAILED|ERROR) (\S+)', outt, re.M)
        unexpected = [f for f in failed if not any(a in f for a in ALWAYS_FAIL)]
        summary = [l for l in outt.splitlines() if re.search(r'\d+ (passed|failed|errors?)\b', l)]
        res['tests_with_change'] = {'targets': tests, 'summary': summary[-1:] if summary else [],
                                    'unexpected_failures': unexpected}
        ok = rc0 == 0 and rc1 != 0 and res['patch_applies'] and not unexpected and bool(summary)
        res['confirmed'] = ok
    finally:
        subprocess.run(['git', '-C', '/repo', 'worktree', 'remove', '--force', wt],
                       capture_output=True)
        shutil.rmtree(wt, ignore_errors=True)
    out = os.path.join('/verif/seeded', f'{pid}-{x}')
    if res.get('confirmed'):
        os.makedirs(out, exist_ok=True)
        shutil.copy(patch, os.path.join(out, 'patch.diff'))
        open(os.path.join(out, 'demo.py'), 'w').write(
            open(demo).read().replace(awt, '<WORKTREE>'))
        meta_txt = ''
        mt = os.path.join(src, f'{sx}_meta.txt')
        if os.path.exists(mt):
            meta_txt = open(mt).read()
        meta = {'breaks_property': pid, 'variant': x, 'needs_to_manifest': needs,
                'author_notes': meta_txt, 'confirmed_by_me': res,
                'how_confirmed': 'fresh scratch worktree of /repo HEAD: demo exits 0 unmodified, '
                                 'non-zero with the patch; pytest targets listed above pass with the '
                                 'patch (known always_fail items ignored)',
                'caught_by': [], 'missed_by': []}
        # keep caught_by of an earlier filing
        mp = os.path.join(out, 'meta.json')
        if os.path.exists(mp):
            old = json.load(open(mp))
            meta['caught_by'] = old.get('caught_by', [])
            meta['missed_by'] = old.get('missed_by', [])
        json.dump(meta, open(mp, 'w'), indent=1)
    print(json.dumps({k: res[k] for k in res if k != 'tests_with_change'} |
                     {'tests': res.get('tests_with_change')}, indent=None)[:900])
    return 0 if res.get('confirmed') else 1


if __name__ == '__main__':
    sys.exit(main())
