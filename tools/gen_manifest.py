#!/usr/bin/env python3
"""Regenerates /verif/MANIFEST.json from the table below (keeps it schema-valid at all times)."""
import json
import os
import subprocess

HERE = os.path.dirname(os.path.dirname(os.path.abspath(__file__)))

# id -> (technique, level text, level note, design ref)
CHECKS = {
    'C01': ('differential runtime oracle (PIT eval vs export) + in-situ contract on _time_mask (also while the repository test-suite runs as a workload) + structural monitor; exhaustive time-mask pattern sweep, random G-PIT programs incl. layers invoked twice in different sharing groups and shared / per-call-site padding modules',
            'Held on every execution explored: the complete (K 1..9, d 1..3, r, g) time-pattern space of a causal Conv1d and hundreds (quick) / thousands (thorough) of random grammar programs x mask assignments, each compared output-for-output with its export. Exploration, not proof: inputs and programs are sampled.',
            'torch.fx, PyTorch kernels, 4 random inputs per case, tolerance 1e-4*(1+max|y|)', '5/C01'),
    'C02': ('bit-exact differential oracle (torch.equal) MPS eval vs export + precision / producer-consumer monitors on the exported fx graph',
            'Held on every explored (program, precision tuples, coefficients, temperature, sampling flags) case with 4 input batches each; every exported layer\'s precisions compared with summary() and with the arg-max of the assigned coefficients. Exploration over a program grammar.',
            'same kernels/shapes/thread count on both sides; per-layer weight search only', '5/C02'),
    'C03': ('module-tree oracle + bit-exact differential oracle (hard-selection SuperNet vs export); winner combinations exhaustive per small network',
            'Held on all explored networks x winner combinations (exhaustive when <= 64 per network, incl. 10..12-branch blocks and blocks ending in functional ops / methods).',
            'hard selection = update_softmax_options(hard=True)+eval; finite outputs', '5/C03'),
    'C04': ('reference-model oracle R-cost on the exported network vs PIT discrete cost; initial continuous==discrete==original',
            'Held on every explored (program, masks, spec mode, full_cost) case for params/params_no_bias/ops/ops_no_bias/gap8_latency, incl. layers invoked twice and fixed first layers.',
            'float32 costs compared at 1e-6 relative; gap8 judged for consistency with the registered function', '5/C04'),
    'C05': ('reference bit-cost from summary() + R-alive, probing CostSpec recording the specs shown to cost functions',
            'Held on every explored per-layer / per-channel / per-channel+0bit case for params_bit, ops_bit, mpic_latency (and ne16_latency where applicable), incl. layers re-used at two resolutions and non-zero padding modes; the defects found were repaired (known_findings.json).',
            'reference uses only summary() and the seed program; 1e-5 relative', '5/C05'),
    'C06': ('reference-model oracle: theta-weighted R-cost per branch and call site, bounds over pure selections, hard cost vs exported network',
            'Held on every explored (network, coefficients, mode, metric, full_cost) case, incl. blocks invoked twice at the same / at different resolutions and seed networks wrapped a second time at another input resolution (the different-resolution defect was repaired, 68d733d).',
            'theta read after the forward; 1e-5 relative', '5/C06'),
    'C07': ('differential oracle vs a deep copy of the seed, training-flag snapshots, SHA-256 of the user model state_dict, immediate-export architecture and function comparison',
            'Held on every explored PIT / MPS / SuperNet import case (fold on/off, train/eval hand-over, user-placed layers, identical-copy and hard-selected branches).',
            'user object .training flag not asserted (DESIGN sec. 7); unfused import compared bit-exactly', '5/C07'),
    'C08': ('invariant hooks on live state after every parameter assignment + export/forward/shape oracle + in-situ _time_mask and features-mask contracts (also under the optimiser-driven repository tests); exhaustive K 1..12 time-mask sweep',
            'Held on the complete (K 1..12, d 1..3, r 0..K, g 0..len(gamma)) sweep and on adversarial real mask vectors (0, negative, 1e30, 3e38, threshold values) on random programs.',
            'NaN/inf not assigned; frozen time maskers not assigned', '5/C08'),
    'C09': ('program-level reference R-alive vs five independent reports per layer + dynamic pre-hook zero check + exported forward',
            'Held on all 36 concat origin combinations x consumers x families and on random DAGs / excluded layers / user-placed layers; the PIT masker-sharing defects found (excluded layers, sums with / depthwise after a concat, concat into an output) were repaired. The README autoconvert-off usage (a standard layer behind a user-placed PIT layer) is a known finding.',
            'R-alive takes each layer\'s own binarised mask as given; dynamic check one-sided', '5/C09'),
    'C10': ('history + offline checker: class-level wrappers on the sampling functions log every sampling event (generated histories and the repository MPS / SuperNet tests as a workload); rules of the statement applied per event; summary/export vs R-select at the end of each history',
            'Held on every recorded sampling event of random option/forward interleavings on stand-alone quantizers / combiners and whole models; SuperNet soft-in-eval is a known finding.',
            'rules keyed on the sampler that actually ran', '5/C10'),
    'C11': ('lock-step executable reference model R-train over call histories closed under abstract-state reachability',
            'Held after every call of every explored history (BFS closure to length 3/4 + random continuation to 8) on PIT, MPS per-layer/per-channel and SuperNet models.',
            'frozen components identified by an independent program-level analysis', '5/C11'),
    'C12': ('oracle battery on the real cost: finite/non-negative (also in situ on every model cost computed while the repository tests run), bit-exact independence from weights and data, autograd vs finite differences, monotonicity under ordered mask vectors, fully-open == original (conversion examples of 1..4 samples, layers invoked twice)',
            'Held on every explored (model, spec) pair for PIT, SuperNet, MPS and ODiMO_MPS with its defaults; one corner (zero gradient through the detached consumer path when a layer sees 0 input features) is a known finding.',
            'operational definition of "raises the metric": +1e-3 finite difference', '5/C12'),
    'C13': ('float64 evaluation of the stated inequalities on the real quantizers: exhaustive level-boundary sweep, seeded tensors, in-situ wrappers on the three forward methods inside MPS models and under the repository MPS tests (real optimiser runs)',
            'Held on the complete boundary sweep for bits {2,3,4,8} and on all seeded / in-situ tensors.',
            '4 ulp float32 slack on round-off dependent comparisons', '5/C13'),
    'C14': ('forward hooks on the integer layers + per-layer R-int bound against the fake-quantized counterpart + range monitors on stored state and activations',
            'Held on every explored (program, precisions, backend, options) case for MATCH and MAUPITI incl. bias-free layers, dilation on either axis (also depthwise), saturation in both directions and - for MATCH - fully convolutional networks; the unfinished final-Conv2d path of the MAUPITI back-end is recorded as two known findings.',
            'integerize_arch applied to a deep copy of the export; bound = 1 level + own scale/shift approximation error', '5/C14'),
    'C15': ('exhaustive enumeration against the order-independent reference R-lookup + icontract postcondition on CostSpec.__getitem__ in situ (generated models and the whole repository test-suite as a workload)',
            'Exhaustive: every registration order of every pattern subset x every truth assignment x both defaults, the same with one function object shared by two patterns (5700 lookups), plus in-situ lookups made by real conversions.',
            'user constraint = arbitrary predicate (stride==2 / in_features==7)', '5/C15'),
    'C16': ('direct calls of every registered cost function on grid sweeps with finiteness / sign / monotonicity / identity / rejection oracles; helper exactness on integer pairs; in-situ finite/non-negative contract on every built-in cost function call made while the repository test-suite runs',
            'Quick: strided grids (every tile boundary +-1); thorough: full grids (channels 1..130, kernels, output sizes 1..33, bits), fractional channel counts with gradients, all helpers, rejection probes.',
            'functions called directly on specs satisfying their own pattern', '5/C16'),
    'C17': ('observation-snapshot oracle (incl. an as-is first forward straight after load_state_dict) across save/load into a freshly configured wrapper, incl. real two-process crash (os._exit) / restart round trips',
            'Held on every explored checkpoint (k 0..5 steps, option changes, train/eval, checkpoints taken while a parameter group is frozen) for PIT / MPS / SuperNet, in-process and across a real process crash.',
            'configuration re-applied through the public API; same snapshot call on both sides', '5/C17'),
    'C18': ('twin-model oracle over observer-call sequences (all sequences up to length 2/3 + sampled longer ones) incl. as-is cost value / differentiability / gradient, exports pairwise identical, search continues bit-identically; in-situ before/after contract (state_dict bit-wise, training flags, requires_grad) on every outermost export / summary / get_cost call, also under the repository tests',
            'Held on every explored sequence over {export, export(add_bn=False), summary, cost, get_cost, spec switch, forward} for the three methods in train and eval mode.',
            'Gumbel forwards seeded on both twins; as-is gradient comparison one-sided; per-channel MPS export (documented crash) not driven', '5/C18'),
    'C19': ('float64 reference R-duccio vs the real regularizers on stub and real models; effective strength recovered by differentiation; complete (epoch, n_epochs) grid',
            'Held on all 1325 (epoch, n_epochs<=50) pairs x cost placements x strength modes, BaseRegularizer, and real PIT models.',
            'positive final strengths read as positive and finite', '5/C19'),
    'C20': ('direct + in-situ contract on _reassign_precisions (exhaustive small matrices, all compositions), wrapper on _compute_cost recording every evaluated configuration, and end-to-end histories of optimize_prec_assignment with the NE16 cost, incl. a second application to its own result',
            'Held on every explored case: exhaustive small score matrices x all compositions (counts met, one precision per channel) and end-to-end refinements of per-channel NE16 models incl. 33..72-channel layers (promotion only, counts == chosen counts, chosen configuration is a cheapest evaluated one, cost not higher). The four defect mechanisms found on the pinned tree were repaired (5bae6ad, 5521313, eda93e6). One mechanism on the unchanged tree is a known finding: two layers sharing one weight quantizer (conv + depthwise, >= 33 channels) are refined one after the other.',
            'bit-widths read from summary(); chosen counts observed at the call boundary of the reassignment step', '5/C20'),
}
NOT_BUILT = {}

def main():
    props = [json.loads(l) for l in open(os.path.join(HERE, 'properties.jsonl'))]
    checks = []
    na = []
    for p in props:
        pid = p['id']
        if pid in CHECKS:
            tech, text, note, ref = CHECKS[pid]
            checks.append({
                'property_id': pid,
                'quick_cmd': f'./check {pid} --tier quick',
                'thorough_cmd': f'./check {pid} --tier thorough',
                'evidence_file': f'/verif/evidence/{pid}.json',
                'replay_cmd_template': f'./check {pid} --replay {{path}}',
                'engine': 'vf',
                'level_claimed': {'category': 'exploration', 'text': text, 'design_ref': 'DESIGN.md section ' + ref},
                'level_note': note,
                'technique': tech,
            })
        else:
            na.append({'property_id': pid, 'reason': NOT_BUILT.get(pid, 'check not built yet in this round (runtime monitoring applies; see DESIGN.md section 5)')})
    try:
        commits = subprocess.run(['git', '-C', '/repo', 'log', '--format=%h %s', 'bfd6014..HEAD'], capture_output=True, text=True).stdout.strip().splitlines()
    except Exception:
        commits = []
    man = {
        'version': 1,
        'setup_cmd': './setup.sh',
        'hooks': {
            'guard': 'PLINIO_VERIF',
            'enable': 'no source hooks: monitors attach from the harness (class-level wrappers, forward hooks, runtime contracts); ./check exports PLINIO_VERIF=1 for symmetry, nothing in /repo reads it',
            'baseline_off_cmd': 'cd /repo && env -u PLINIO_VERIF /venv/bin/python -m pytest -ra -q -p no:cacheprovider --timeout=900 --continue-on-collection-errors',
            'source_commits': [],
            'add_only': True,
        },
        'engines': [{'name': 'vf', 'path': '/verif/vf', 'serves_properties': sorted(CHECKS),
                     'kind_free_text': 'runtime monitoring harness: seeded workload generators (program grammars, call histories, neutral prefixes), reference-model oracles, in-situ contracts on the real functions, sharded subprocess workers, known-finding classifier with mechanism predicates'}],
        'checks': checks,
        'not_applicable': na,
        'notes': 'fix: commits in /repo (genuine defects repaired, see known_findings.json): ' + '; '.join(commits),
    }
    with open(os.path.join(HERE, 'MANIFEST.json'), 'w') as f:
        json.dump(man, f, indent=1)
    print('checks', len(checks), 'not_applicable', len(na))

if __name__ == '__main__':
    main()
