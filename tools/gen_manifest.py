#!/usr/bin/env python3
"""Regenerates /verif/MANIFEST.json from the table below (keeps it schema-valid at all times)."""
import json
import os
import subprocess

HERE = os.path.dirname(os.path.dirname(os.path.abspath(__file__)))

# id -> (technique, level text, level note, design ref)
CHECKS = {
    'C01': ('differential runtime oracle (PIT eval vs export) + in-situ contract on _time_mask + structural monitor; exhaustive time-mask pattern sweep, random G-PIT programs',
            'Held on every execution explored: the complete (K 1..9, d 1..3, r, g) time-pattern space of a causal Conv1d and hundreds (quick) / thousands (thorough) of random grammar programs x mask assignments, each compared output-for-output with its export. Exploration, not proof: inputs and programs are sampled.',
            'torch.fx, PyTorch kernels, 4 random inputs per case, tolerance 1e-4*(1+max|y|)', '5/C01'),
}
NOT_BUILT = {}

def main():
    props = [json.loads(l) for l in open(os.path.join(HERE, 'properties.jsonl'))]
    checks = []
    na = []
    for p in props:
        pid = p['id']
        if pid in CHECKS:
            tech, text, note, ref = CHECKS[pid]
            checks.append({
                'property_id': pid,
                'quick_cmd': f'./check {pid} --tier quick',
                'thorough_cmd': f'./check {pid} --tier thorough',
                'evidence_file': f'/verif/evidence/{pid}.json',
                'replay_cmd_template': f'./check {pid} --replay {{path}}',
                'engine': 'vf',
                'level_claimed': {'category': 'exploration', 'text': text, 'design_ref': 'DESIGN.md section ' + ref},
                'level_note': note,
                'technique': tech,
            })
        else:
            na.append({'property_id': pid, 'reason': NOT_BUILT.get(pid, 'check not built yet in this round (runtime monitoring applies; see DESIGN.md section 5)')})
    try:
        commits = subprocess.run(['git', '-C', '/repo', 'log', '--format=%h %s', 'bfd6014..HEAD'], capture_output=True, text=True).stdout.strip().splitlines()
    except Exception:
        commits = []
    man = {
        'version': 1,
        'setup_cmd': './setup.sh',
        'hooks': {
            'guard': 'PLINIO_VERIF',
            'enable': 'no source hooks: monitors attach from the harness (class-level wrappers, forward hooks, runtime contracts); ./check exports PLINIO_VERIF=1 for symmetry, nothing in /repo reads it',
            'baseline_off_cmd': 'cd /repo && env -u PLINIO_VERIF /venv/bin/python -m pytest -ra -q -p no:cacheprovider --timeout=900 --continue-on-collection-errors',
            'source_commits': [],
            'add_only': True,
        },
        'engines': [{'name': 'vf', 'path': '/verif/vf', 'serves_properties': sorted(CHECKS),
                     'kind_free_text': 'runtime monitoring harness: seeded workload generators, reference-model oracles, in-situ contracts on the real functions, sharded subprocess workers, known-finding classifier'}],
        'checks': checks,
        'not_applicable': na,
        'notes': 'fix: commits in /repo (genuine defects repaired, see known_findings.json): ' + '; '.join(commits),
    }
    with open(os.path.join(HERE, 'MANIFEST.json'), 'w') as f:
        json.dump(man, f, indent=1)
    print('checks', len(checks), 'not_applicable', len(na))

if __name__ == '__main__':
    main()
