#!/usr/bin/env python3
"""Run checks against a seeded defect WITHOUT touching /repo: a scratch git worktree of /repo's HEAD
gets the patch, the checks run with VERIF_REPO pointing at it (evidence / replays redirected), the
worktree is removed afterwards.

usage: eval_mutation.py <patch.diff> <CNN>[,<CMM>...|all] [--tier quick|thorough] [--seed N]
prints one line per check:  <prop> rc=<rc> <last line>   and the VIOLATION lines
"""
import os
import subprocess
import sys
import tempfile
import shutil

VERIF = os.path.dirname(os.path.dirname(os.path.abspath(__file__)))


def main():
    patch = os.path.abspath(sys.argv[1])
    props = sys.argv[2]
    tier = 'quick'
    seed = '0'
    if '--tier' in sys.argv:
        tier = sys.argv[sys.argv.index('--tier') + 1]
    if '--seed' in sys.argv:
        seed = sys.argv[sys.argv.index('--seed') + 1]
    if props == 'all':
        props = ','.join(f'C{i:02d}' for i in range(1, 21))
    wt = tempfile.mkdtemp(prefix='vf_eval_', dir='/tmp')
    os.rmdir(wt)
    out_dir = tempfile.mkdtemp(prefix='vf_eval_out_', dir='/tmp')
    caught = []
    try:
        subprocess.run(['git', '-C', '/repo', 'worktree', 'add', '-q', '--detach', wt, 'HEAD'],
                       check=True)
        r = subprocess.run(['git', '-C', wt, 'apply', patch], capture_output=True, text=True)
        if r.returncode != 0 and '--partial' in sys.argv:
            # (reverts of old fixes) later commits changed some of the same lines: apply the hunks
            # that still apply, report the rejected files
            r2 = subprocess.run(['git', '-C', wt, 'apply', '--reject', patch], capture_output=True,
                                text=True)
            rej = subprocess.run('find . -name "*.rej"', shell=True, cwd=wt, capture_output=True,
                                 text=True).stdout.split()
            changed = subprocess.run(['git', '-C', wt, 'diff', '--stat'], capture_output=True,
                                     text=True).stdout.strip().splitlines()
            print('PARTIALLY APPLIED; rejected hunks in:', ' '.join(rej) or '-', '| applied:',
                  changed[-1] if changed else 'nothing')
            if not changed:
                return 3
        elif r.returncode != 0:
            print('PATCH DOES NOT APPLY:', r.stderr[:500])
            return 3
        env = dict(os.environ, VERIF_REPO=wt, VF_EVIDENCE_DIR=os.path.join(out_dir, 'ev'),
                   VF_REPLAY_DIR=os.path.join(out_dir, 'replays'), VERIF_SEED=seed)
        for p in props.split(','):
            r = subprocess.run([os.path.join(VERIF, 'check'), p, '--tier', tier], env=env,
                               capture_output=True, text=True, cwd=VERIF)
            lines = r.stdout.strip().splitlines()
            print(f'{p} rc={r.returncode} {lines[-1] if lines else r.stderr[-300:]}')
            shown = 0
            for l in lines:
                if l.startswith('INCONCLUSIVE'):
                    print('   ', l[:200])
                if l.startswith('  monitor=') and shown < 3:
                    shown += 1
                    print('      ', l[:300])
            if r.returncode == 1:
                caught.append(p)
        print('CAUGHT-BY:', ','.join(caught) if caught else 'NONE')
    finally:
        subprocess.run(['git', '-C', '/repo', 'worktree', 'remove', '--force', wt],
                       capture_output=True)
        shutil.rmtree(wt, ignore_errors=True)
        shutil.rmtree(out_dir, ignore_errors=True)
    return 0 if caught else 1


if __name__ == '__main__':
    sys.exit(main())
