#!/bin/bash
# round_eval.sh <prefix> <ID> [<props>]: evaluate the agent's A and B patches against the check(s) (default: own property),
# while confirming both in the background (files seeded/<ID>-K and -L when confirmed)
P=$1; ID=$2; PROPS=${3:-$ID}
cd /verif
tools/confirm_round.sh $P $ID ${XA:-K} ${XB:-L} > /tmp/confirm_out_$ID.log 2>&1 &
for l in A B; do
  echo "== $ID $l"
  python3 tools/eval_mutation.py ${P}_$ID/MUTATION/$l.diff $PROPS 2>&1 | grep -E "rc=|monitor=|NOT APPLY" | cut -c1-230 | head -${4:-3}
done
wait
cat /tmp/confirm_out_$ID.log
