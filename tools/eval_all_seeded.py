#!/usr/bin/env python3
"""Runs, for every seeded defect under /verif/seeded/<ID>-<X>/, the quick check of the property it
breaks (plus the extra checks listed in EXTRA) against a scratch worktree carrying the patch, and
records the outcome in meta.json (caught_by / missed_by / first monitor) and seeded/RESULTS.md."""
import json
import os
import re
import subprocess
import sys

VERIF = os.path.dirname(os.path.dirname(os.path.abspath(__file__)))
EXTRA = {'C04-A': ['C18', 'C12'], 'C05-B': ['C11'], 'C10-A': ['C11'], 'C12-A': ['C04'],
         'C12-B': ['C04'], 'C11-B': ['C08', 'C01'], 'C08-A': ['C01'], 'C08-B': ['C01'],
         'C01-B': ['C08'], 'C09-A': ['C04'], 'C09-B': ['C04'], 'C18-B': ['C06'], 'C03-A': ['C10'],
         'C13-A': ['C14'], 'C12-C': ['C06', 'C18'], 'C04-D': ['C18'], 'C07-C': ['C01'],
         'C09-D': ['C04'], 'C05-H': ['C09', 'C04'], 'C01-H': ['C08'], 'C08-H': ['C01'],
         'C05-K': ['C12'], 'C12-K': ['C04', 'C06'], 'C12-L': ['C04'], 'C10-L': ['C03'], 'C03-L': ['C10'],
         'C18-L': ['C04'], 'C17-L': ['C09'], 'C04-N': ['C12'], 'C12-M': ['C04'], 'C02-N': ['C05']}


def write_table(sd):
    """RESULTS.md from the meta.json files (the per-defect results recorded by the last evaluation
    of each defect)"""
    with open(os.path.join(sd, 'RESULTS.md'), 'w') as f:
        f.write('# Seeded defects: which quick checks catch which (seed 0)\n\n')
        f.write('| seeded defect | round | caught by | first monitor that fired | not caught by (also run) |\n|---|---|---|---|---|\n')
        n = c = 0
        other = []
        for name in sorted(os.listdir(sd)):
            mp = os.path.join(sd, name, 'meta.json')
            if name.startswith('_') or not os.path.exists(mp):
                continue
            meta = json.load(open(mp))
            caught, missed, mons = meta.get('caught_by', []), meta.get('missed_by', []), \
                meta.get('first_monitor', {})
            n += 1
            if name.split('-')[0] in caught:
                c += 1
            elif meta.get('outside_own_quantifier') and caught:
                other.append(name + ' (' + ', '.join(caught) + ')')
            f.write(f"| {name} | {meta.get('round', 1)} | {', '.join(caught) or '**none**'} | "
                    f"{'; '.join(k + ': ' + v for k, v in mons.items())} | {', '.join(missed)} |\n")
        f.write(f'\n{c} of {n} filed defects are caught by the quick tier of the property they break.\n')
        if other:
            f.write('Caught only by other properties because their trigger lies outside the quantifier '
                    'of the property they were written for: ' + '; '.join(other) + '\n')
        obs = os.path.join(sd, '_obsolete')
        if os.path.isdir(obs):
            f.write('\nNo longer evaluated (see their meta.json): ' + ', '.join(sorted(os.listdir(obs))) + '\n')


def main():
    if sys.argv[1:] == ['--table-only']:
        return write_table(os.path.join(VERIF, 'seeded'))
    only = sys.argv[1:] or None
    rows = []
    sd = os.path.join(VERIF, 'seeded')
    for name in sorted(os.listdir(sd)):
        d = os.path.join(sd, name)
        if not os.path.isdir(d) or name.startswith('_') or (only and name not in only):
            continue
        prop = name.split('-')[0]
        props = [prop] + EXTRA.get(name, [])
        r = subprocess.run([sys.executable, os.path.join(VERIF, 'tools', 'eval_mutation.py'),
                            os.path.join(d, 'patch.diff'), ','.join(props)],
                           capture_output=True, text=True)
        caught, missed, monitors = [], [], {}
        cur = None
        for l in r.stdout.splitlines():
            m = re.match(r'^(C\d+) rc=(\d+)', l)
            if m:
                cur = m.group(1)
                (caught if m.group(2) == '1' else missed).append(cur + ('' if m.group(2) in '01'
                                                                        else ':inconclusive'))
            m2 = re.match(r'^\s+monitor=(\S+)', l)
            if m2 and cur and cur not in monitors:
                monitors[cur] = m2.group(1)
        mp = os.path.join(d, 'meta.json')
        meta = json.load(open(mp))
        meta['caught_by'] = caught
        meta['missed_by'] = missed
        meta['first_monitor'] = monitors
        meta['what_i_ran'] = f'tools/eval_mutation.py seeded/{name}/patch.diff {",".join(props)} (quick tier, seed 0)'
        json.dump(meta, open(mp, 'w'), indent=1)
        rows.append((name, caught, missed, monitors))
        print(name, 'caught', caught, 'missed', missed, flush=True)
    write_table(sd)


if __name__ == '__main__':
    main()
