#!/usr/bin/env python3
"""Runs, for every seeded defect under /verif/seeded/<ID>-<X>/, the quick check of the property it
breaks (plus the extra checks listed in EXTRA) against a scratch worktree carrying the patch, and
records the outcome in meta.json (caught_by / missed_by / first monitor) and seeded/RESULTS.md."""
import json
import os
import re
import subprocess
import sys

VERIF = os.path.dirname(os.path.dirname(os.path.abspath(__file__)))
EXTRA = {'C04-A': ['C18', 'C12'], 'C05-B': ['C11'], 'C10-A': ['C11'], 'C12-A': ['C04'],
         'C12-B': ['C04'], 'C11-B': ['C08', 'C01'], 'C08-A': ['C01'], 'C08-B': ['C01'],
         'C01-B': ['C08'], 'C09-A': ['C04'], 'C09-B': ['C04'], 'C18-B': ['C06'], 'C03-A': ['C10'],
         'C13-A': ['C14'], 'C12-C': ['C06', 'C18'], 'C04-D': ['C18'], 'C07-C': ['C01'],
         'C09-D': ['C04']}


def main():
    only = sys.argv[1:] or None
    rows = []
    sd = os.path.join(VERIF, 'seeded')
    for name in sorted(os.listdir(sd)):
        d = os.path.join(sd, name)
        if not os.path.isdir(d) or (only and name not in only):
            continue
        prop = name.split('-')[0]
        props = [prop] + EXTRA.get(name, [])
        r = subprocess.run([sys.executable, os.path.join(VERIF, 'tools', 'eval_mutation.py'),
                            os.path.join(d, 'patch.diff'), ','.join(props)],
                           capture_output=True, text=True)
        caught, missed, monitors = [], [], {}
        cur = None
        for l in r.stdout.splitlines():
            m = re.match(r'^(C\d+) rc=(\d+)', l)
            if m:
                cur = m.group(1)
                (caught if m.group(2) == '1' else missed).append(cur + ('' if m.group(2) in '01'
                                                                        else ':inconclusive'))
            m2 = re.match(r'^\s+monitor=(\S+)', l)
            if m2 and cur and cur not in monitors:
                monitors[cur] = m2.group(1)
        mp = os.path.join(d, 'meta.json')
        meta = json.load(open(mp))
        meta['caught_by'] = caught
        meta['missed_by'] = missed
        meta['first_monitor'] = monitors
        meta['what_i_ran'] = f'tools/eval_mutation.py seeded/{name}/patch.diff {",".join(props)} (quick tier, seed 0)'
        json.dump(meta, open(mp, 'w'), indent=1)
        rows.append((name, caught, missed, monitors))
        print(name, 'caught', caught, 'missed', missed, flush=True)
    if not only:
        with open(os.path.join(sd, 'RESULTS.md'), 'w') as f:
            f.write('# Seeded defects: which quick checks catch which (seed 0)\n\n')
            f.write('| seeded defect | caught by | first monitor that fired | not caught by (also run) |\n|---|---|---|---|\n')
            for name, caught, missed, mons in rows:
                f.write(f"| {name} | {', '.join(caught) or '**none**'} | "
                        f"{'; '.join(k + ': ' + v for k, v in mons.items())} | {', '.join(missed)} |\n")


if __name__ == '__main__':
    main()
