#!/bin/bash
# DESIGN sec. 9 step 3: reverting each "fix:" commit of /repo must make the corresponding check fire
# again.  Uses scratch worktrees (tools/eval_mutation.py), never touches /repo.
cd "$(dirname "$0")/.." || exit 2
declare -A MAP=(
 ["anchor the PIT dilation mask"]="C01"
 ["mask the bias of pruned channels"]="C01"
 ["features calculators honour"]="C09"
 ["GAP8 latency model accepts"]="C04"
 ["cost-function lookup no longer"]="C15"
 ["PACTAct.scale reports"]="C13"
 ["closest preceding quantized layer"]="C02"
 ["MPSLinear passes the effective"]="C05"
 ["MPS per-channel cost weights"]="C05"
 ["SuperNet export selects the winning"]="C03"
 ["update_softmax_options keeps"]="C11"
 ["frozen PIT masks are buffers"]="C11"
 ["ODiMO latency reduction"]="C12"
 ["DIANA latency model reads"]="C12"
 ["export() restores the training mode"]="C18"
 ["integer layers accept layers without bias"]="C14"
 ["MATCH dilated convolutions"]="C14"
 ["MAUPITI layers compensate"]="C14"
 ["PIT freezes the features that it cannot mask"]="C09"
 ["fused only once"]="C07"
 ["0-bit precision also for input-connected"]="C05"
 ["not in ascending order"]="C20"
 ["despite float rounding"]="C20"
 ["shapes of its own call site"]="C06"
 ["concatenated into a network output"]="C08"
 ["meets the requested counts"]="C20"
 ["leave the sampled coefficients in place"]="C18"
 ["at every call site of a layer invoked multiple times"]="C07"
 ["ties the features of all the call sites"]="C09"
 ["pads every call site and leaves shared padding"]="C08"
 ["two features concatenations that are summed"]="C09"
 ["whatever way the axis is spelled"]="C09"
 ["fold the dilation into the weights of grouped"]="C14"
 ["not fused with the following layer when it is also invoked"]="C07"
)
fail=0
git -C /repo log --format='%h %s' bfd6014..HEAD | grep ' fix:' | while read h msg; do
  prop=""
  for k in "${!MAP[@]}"; do case "$msg" in *"$k"*) prop=${MAP[$k]};; esac; done
  [ -z "$prop" ] && { echo "NO-MAP $h $msg"; continue; }
  if [ -f tools/manual_reverts/$h.diff ]; then
    # a later fix: commit changed the same lines: hand-made revert of this fix on the current tree
    cp tools/manual_reverts/$h.diff /tmp/vf_revert_$h.diff; msg="$msg [hand-made revert]"
  else
    git -C /repo diff $h $h~1 > /tmp/vf_revert_$h.diff
  fi
  res=$(python3 tools/eval_mutation.py /tmp/vf_revert_$h.diff $prop --partial 2>&1 | grep -E "CAUGHT-BY|DOES NOT APPLY|PARTIALLY" | tr '\n' ' ')
  echo "$h revert -> $prop : $res  ($msg)"
  rm -f /tmp/vf_revert_$h.diff
done
