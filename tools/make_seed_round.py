#!/usr/bin/env python3
"""Prepare scratch worktrees for a round of seeded defects written by independent sub-agents.

usage: make_seed_round.py <prefix> <ID> [<ID> ...]      e.g.  make_seed_round.py /tmp/w9 C01 C02

For each property: `git -C /repo worktree add --detach <prefix>_<ID> HEAD`, then
<wt>/MUTATION/PROPERTY.txt (the property text only - nothing else from /verif) and
<wt>/MUTATION/INSTRUCTIONS.txt (tools/seed_round_instructions.txt with WT replaced).
The sub-agent prompt is one line pointing at INSTRUCTIONS.txt.  Afterwards:
tools/confirm_seeded.py <ID> <X> <wt> unit_test --needs "..."  files a confirmed defect, and
`git -C /repo worktree remove --force <wt>` removes the scratch tree."""
import json, os, subprocess, sys
here = os.path.dirname(os.path.abspath(__file__))
props = {}
for l in open(os.path.join(here, '..', 'properties.jsonl')):
    d = json.loads(l); props[d['id']] = d
base = open(os.path.join(here, 'seed_round_instructions.txt')).read()
prefix = sys.argv[1]
for pid in sys.argv[2:]:
    wt = f'{prefix}_{pid}'
    subprocess.run(['git', '-C', '/repo', 'worktree', 'add', '-q', '--detach', wt, 'HEAD'], check=True)
    os.makedirs(wt + '/MUTATION')
    d = props[pid]; a = d['anchors']
    txt = (f"PROPERTY {pid}: {d['title']}\n\nSTATEMENT: {d['statement']}\n\nQUANTIFIER: "
           f"{d['quantifier']['text']}\n\nWHY THE EXISTING TESTS CANNOT SETTLE IT: {d['why_tests_cant']}\n\n"
           f"CODE ANCHORS (files): {', '.join(a.get('files', []))}\n")
    o = a.get('observe_at')
    if o:
        txt += 'OBSERVED AT: ' + (o if isinstance(o, str) else '; '.join(map(str, o))) + '\n'
    open(wt + '/MUTATION/PROPERTY.txt', 'w').write(txt)
    open(wt + '/MUTATION/INSTRUCTIONS.txt', 'w').write(base.replace('WT', wt))
    print(wt)
