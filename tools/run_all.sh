#!/bin/bash
# runs every check's quick (or $1) tier once, prints one line per property; validates evidence
cd "$(dirname "$0")/.." || exit 2
TIER=${1:-quick}
rc_all=0
for i in 01 02 03 04 05 06 07 08 09 10 11 12 13 14 15 16 17 18 19 20; do
  out=$(./check C$i --tier $TIER 2>&1); rc=$?
  echo "rc=$rc $(echo "$out" | tail -1)"
  echo "$out" | grep -E "^(VIOLATION|INCONCLUSIVE)" | head -5
  [ $rc -ne 0 ] && rc_all=1
done
python3-vt - <<'PY'
import json, jsonschema, glob
sch = json.load(open('/root/.vp/EVIDENCE.schema.json'))
bad = 0
for f in sorted(glob.glob('/verif/evidence/C*.json')):
    try:
        jsonschema.validate(json.load(open(f)), sch)
    except Exception as e:
        bad += 1
        print('EVIDENCE INVALID', f, str(e)[:200])
print('evidence files valid' if not bad else f'{bad} invalid evidence files')
PY
exit $rc_all
