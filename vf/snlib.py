"""G-SN: SuperNet programs (1..3 choice blocks, 2..12 branches), conversion helpers and R-cost."""
import itertools
import random

import torch
import torch.nn as nn
import torch.nn.functional as F


# user-defined blocks: live outside torch.nn, so the SuperNet tracer traces *into* them
class BlockEndsInModule(nn.Module):
    """conv -> functional relu -> conv : the last op is a module"""
    def __init__(self, cin, cout, k):
        super().__init__()
        self.conv_a = nn.Conv2d(cin, cout, k, padding='same')
        self.conv_b = nn.Conv2d(cout, cout, 1)

    def forward(self, x):
        return self.conv_b(F.relu(self.conv_a(x)))


class BlockEndsInFunctional(nn.Module):
    """conv -> functional relu : the last op is functional"""
    def __init__(self, cin, cout, k):
        super().__init__()
        self.conv = nn.Conv2d(cin, cout, k, padding='same')

    def forward(self, x):
        return F.relu(self.conv(x))


class BlockEndsInMethod(nn.Module):
    """conv -> tensor method (clamp): the last op is a method call"""
    def __init__(self, cin, cout, k):
        super().__init__()
        self.conv = nn.Conv2d(cin, cout, k, padding='same')

    def forward(self, x):
        return self.conv(x).clamp(min=-1.0)


class BlockReadsTrainingFlag(nn.Module):
    """conv -> functional dropout driven by self.training: the block behaves differently in
    training and in eval mode without holding a torch.nn module that does"""
    def __init__(self, cin, cout, k):
        super().__init__()
        self.conv = nn.Conv2d(cin, cout, k, padding='same')

    def forward(self, x):
        return F.dropout(self.conv(x), 0.4, training=self.training)


def make_branch(desc, cin, cout):
    k = desc['kind']
    if k == 'conv':
        return nn.Conv2d(cin, cout, desc['k'], padding='same', bias=desc.get('bias', True))
    if k == 'seq':
        return nn.Sequential(nn.Conv2d(cin, cout, desc['k'], padding='same'), nn.ReLU(),
                             nn.Conv2d(cout, cout, 1))
    if k == 'dwsep':
        return nn.Sequential(nn.Conv2d(cin, cin, 3, padding='same', groups=cin),
                             nn.Conv2d(cin, cout, 1))
    if k == 'block_mod':
        return BlockEndsInModule(cin, cout, desc['k'])
    if k == 'block_fn':
        return BlockEndsInFunctional(cin, cout, desc['k'])
    if k == 'block_meth':
        return BlockEndsInMethod(cin, cout, desc['k'])
    if k == 'block_drop':
        return BlockReadsTrainingFlag(cin, cout, desc['k'])
    if k == 'ident':
        assert cin == cout
        return nn.Identity()
    raise ValueError(k)


_UC = {}


def _user_choice_class():
    """a user-defined subclass of SuperNetModule (what a model zoo does to name its blocks)"""
    if 'c' not in _UC:
        from plinio.methods.supernet import SuperNetModule

        class UserChoice(SuperNetModule):
            pass
        _UC['c'] = UserChoice
    return _UC['c']


class SNProg(nn.Module):
    def __init__(self, desc):
        super().__init__()
        from plinio.methods.supernet import SuperNetModule
        self._desc = desc
        for st in desc['stages']:
            t = st['type']
            if t == 'conv':
                self.add_module(st['name'], nn.Conv2d(st['cin'], st['cout'], st['k'],
                                                      padding='same'))
            elif t == 'bn':
                self.add_module(st['name'], nn.BatchNorm2d(st['c']))
            elif t == 'sn':
                # (every other choice block of a network is an instance of a user subclass)
                cls = _user_choice_class() if st.get('subclass') else SuperNetModule
                self.add_module(st['name'], cls(
                    [make_branch(b, st['cin'], st['cout']) for b in st['branches']],
                    gumbel_softmax=desc.get('gumbel', False), hard_softmax=desc.get('hard', False)))
            elif t == 'pool':
                self.add_module(st['name'], nn.MaxPool2d(2))
        self.gap = nn.AdaptiveAvgPool2d(1)
        self.fc = nn.Linear(desc['c_last'], desc['n_out'])

    def forward(self, x):
        for st in self._desc['stages']:
            t = st['type']
            if t in ('conv', 'bn', 'pool'):
                x = getattr(self, st['name'])(x)
                if st.get('again') == 'same':         # a fixed layer invoked twice
                    x = getattr(self, st['name'])(F.relu(x))
                elif st.get('again') == 'pooled':     # ... at two resolutions
                    x = getattr(self, st['name'])(F.max_pool2d(F.relu(x), 2))
            elif t == 'relu':
                x = F.relu(x)
            elif t == 'sn':
                m = getattr(self, st['name'])
                x = m(x)
                if st.get('twice') == 'same':
                    x = m(torch.relu(x))
                elif st.get('twice') == 'diff':
                    x = m(F.max_pool2d(x, 2))
        x = self.gap(x)
        return self.fc(x.flatten(1))


BRANCH_KINDS = ['conv', 'conv', 'seq', 'dwsep', 'block_mod', 'block_fn', 'ident', 'block_meth']


def gen_sn_desc(rng, n_blocks=None, max_branches=5, kinds=None, allow_twice=True,
                force_branches=None):
    kinds = kinds or BRANCH_KINDS
    c0 = rng.randint(1, 3)
    H = W = rng.randint(6, 9)
    stages = []
    c = c0
    n = [0]

    def nm(p):
        n[0] += 1
        return f'{p}{n[0]}'
    if rng.random() < 0.7:
        co = rng.randint(2, 5)
        stages.append({'type': 'conv', 'name': nm('stem'), 'cin': c, 'cout': co, 'k': 3})
        if rng.random() < 0.5:
            stages.append({'type': 'bn', 'name': nm('bn'), 'c': co})
        stages.append({'type': 'relu'})
        c = co
    n_blocks = n_blocks or rng.randint(1, 3)
    size = H
    for bi in range(n_blocks):
        twice = None
        if allow_twice and rng.random() < 0.3:
            twice = rng.choice(['same', 'diff']) if size >= 4 else 'same'
        cout = c if (twice or rng.random() < 0.4) else rng.randint(2, 6)
        nb = force_branches or rng.randint(2, max_branches)
        branches = []
        for j in range(nb):
            k = rng.choice(kinds)
            if k == 'ident' and c != cout:
                k = 'conv'
            branches.append({'kind': k, 'k': rng.choice([1, 3, 5]), 'bias': rng.random() < 0.8})
        stages.append({'type': 'sn', 'name': nm('sn'), 'cin': c, 'cout': cout,
                       'branches': branches, 'twice': twice,
                       'subclass': len(stages) % 2 == 1})
        if twice == 'diff':
            size //= 2
        c = cout
        r = rng.random()
        if r < 0.4:
            stages.append({'type': 'relu'})
        elif r < 0.6 and size >= 4:
            stages.append({'type': 'pool', 'name': nm('pool')})
            size //= 2
        elif r < 0.68 and allow_twice:
            # a fixed (torch.nn) layer outside the choice blocks that the network invokes twice
            again = rng.choice(['same', 'pooled']) if size >= 4 else 'same'
            stages.append({'type': 'conv', 'name': nm('shr'), 'cin': c, 'cout': c, 'k': 3,
                           'again': again})
            stages.append({'type': 'relu'})
            if again == 'pooled':
                size //= 2
        elif r < 0.8:
            co = rng.randint(2, 5)
            # fixed layers whose qualified name starts like a choice block's (blk / blk_proj,
            # sn3 / sn30) must still be counted as fixed layers
            last_sn = stages[-1]['name'] if stages[-1]['type'] == 'sn' else None
            rr = rng.random()
            name = nm('mid') if (last_sn is None or rr < 0.4) else (
                last_sn + '_proj' if rr < 0.7 else last_sn + '0')
            stages.append({'type': 'conv', 'name': name, 'cin': c, 'cout': co, 'k': 1})
            stages.append({'type': 'relu'})
            c = co
    return {'input': [c0, H, W], 'stages': stages, 'c_last': c, 'n_out': rng.randint(2, 4)}


def build_sn(desc, seed):
    st = torch.random.get_rng_state()
    torch.manual_seed(int(seed) % (2 ** 31))
    m = SNProg(desc)
    g = torch.Generator().manual_seed(int(seed) % (2 ** 31) + 1)
    with torch.no_grad():
        for mod in m.modules():
            if isinstance(mod, nn.BatchNorm2d):
                mod.running_mean.copy_(torch.randn(mod.num_features, generator=g) * 0.3)
                mod.running_var.copy_(torch.rand(mod.num_features, generator=g) + 0.5)
                mod.weight.copy_(torch.rand(mod.num_features, generator=g) + 0.5)
                mod.bias.copy_(torch.randn(mod.num_features, generator=g) * 0.3)
    torch.random.set_rng_state(st)
    m.eval()
    return m


def convert_sn(desc, seed, cost=None, full_cost=False):
    from plinio.methods import SuperNet
    from plinio.cost import params
    model = build_sn(desc, seed)
    x = sn_input(desc, seed, 1)
    from vf import neutral
    sn = SuperNet(model, cost=cost if cost is not None else params,
                  input_example=sn_input(desc, seed, neutral.example_batch(seed)),
                  full_cost=full_cost)
    sn = neutral.maybe_clone(sn, seed)
    neutral.maybe_warm(sn, [x], seed)
    return model, sn


def sn_input(desc, seed, batch=2):
    g = torch.Generator().manual_seed(int(seed) % (2 ** 31) + 55)
    return torch.randn([batch] + list(desc['input']), generator=g)


def combiners(sn):
    from plinio.methods.supernet.nn.combiner import SuperNetCombiner
    return [(n, m) for n, m in sn.seed.named_modules() if isinstance(m, SuperNetCombiner)]


def sn_blocks(desc):
    return [st for st in desc['stages'] if st['type'] == 'sn']


def set_winners(sn, desc, winners, rng, margin=0.05):
    """alpha with the given arg-max per block and a margin >= `margin` to the runner-up."""
    out = {}
    cmb = dict(combiners(sn))
    for st, w in zip(sn_blocks(desc), winners):
        c = cmb[st['name'] + '.sn_combiner']
        n = c.alpha.numel()
        vals = [rng.uniform(-1.5, 1.0) for _ in range(n)]
        top = max(vals)
        vals[w] = top + margin + rng.uniform(0.0, 0.8)
        for i in range(n):
            if i != w and vals[w] - vals[i] < margin:
                vals[i] = vals[w] - margin - 0.01
        with torch.no_grad():
            c.alpha.data.copy_(torch.tensor(vals))
        out[st['name']] = vals
    return out


def winner_combinations(desc, rng, limit=64):
    """exhaustive when the product of branch counts is small, otherwise every branch of every block
    wins at least once plus random combinations"""
    sizes = [len(st['branches']) for st in sn_blocks(desc)]
    total = 1
    for s in sizes:
        total *= s
    if total <= limit:
        return [list(c) for c in itertools.product(*[range(s) for s in sizes])], True
    combos = []
    for b, s in enumerate(sizes):
        for i in range(s):
            c = [rng.randrange(x) for x in sizes]
            c[b] = i
            combos.append(c)
    while len(combos) < limit:
        combos.append([rng.randrange(x) for x in sizes])
    return combos, False


def conv_linear_calls(model, x):
    """[(qualified name, module, output shape)] for every conv/linear call of one forward"""
    calls, hooks = [], []
    for name, m in model.named_modules():
        if isinstance(m, (nn.Conv1d, nn.Conv2d, nn.Linear)):
            hooks.append(m.register_forward_hook(
                lambda mod, inp, out, name=name: calls.append((name, mod, tuple(out.shape)))))
    with torch.no_grad():
        model(x)
    for h in hooks:
        h.remove()
    return calls
