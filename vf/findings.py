"""Known-finding classifiers: one predicate per *mechanism* key of /verif/known_findings.json.

A predicate looks only at the witness (monitor name, detail, case description) - never at seeds,
hashes or random values - so that a different violation of the same property is still reported.
"""

PREDICATES = {}


def predicate(key):
    def deco(fn):
        PREDICATES[key] = fn
        return fn
    return deco
