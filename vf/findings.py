"""Known-finding classifiers: one predicate per *mechanism* key of /verif/known_findings.json.

A predicate looks only at the witness (monitor name, detail, case description) - never at seeds,
hashes or random values - so that a different violation of the same property is still reported.
"""

PREDICATES = {}


def predicate(key):
    def deco(fn):
        PREDICATES[key] = fn
        return fn
    return deco


# ------------------------------------------------------------------------------------------------
# PIT masker-sharing findings (C01 / C07 / C09): identified by the *taint kinds* that the R-alive
# reference derived from the observed masks and the program's dataflow (vf/pitlib.r_alive), never
# by the generator's own labels.  Only the direct consequences of an inconsistent mask assignment
# are excused (the inconsistency itself, crashes and output mismatches of a network that contains
# it); per-layer width reports of untainted layers are never excused.
# ------------------------------------------------------------------------------------------------
KNOWN_TAINTS = {
    'add:cat': 'pit-add-of-concat-not-frozen',
    'tcat:cat': 'pit-add-of-concat-not-frozen',
    'add:fixed': 'pit-excluded-layer-not-frozen',
    'tcat:fixed': 'pit-excluded-layer-not-frozen',
    'dw:fixed': 'pit-excluded-layer-not-frozen',
    'excluded-consumer': 'pit-excluded-layer-not-frozen',
    'dw:cat': 'pit-dw-after-concat-no-masker',
}
TAINT_EXCUSABLE = {'mask-consistency', 'export-crash', 'exported-forward-crash', 'output-mismatch',
                   'pit-forward-crash', 'cost-crash', 'unusable-after-conversion'}


def _taint_pred(key):
    def pred(v):
        if v['monitor'] not in TAINT_EXCUSABLE:
            return False
        taints = (v.get('detail') or {}).get('taints') or []
        if not taints or any(t not in KNOWN_TAINTS for t in taints):
            return False
        return key in {KNOWN_TAINTS[t] for t in taints}
    return pred


for _k in set(KNOWN_TAINTS.values()):
    PREDICATES[_k] = _taint_pred(_k)
