"""Known-finding classifiers: one predicate per *mechanism* key of /verif/known_findings.json.

A predicate looks only at the witness (monitor name, detail, case description) - never at seeds,
hashes or random values - so that a different violation of the same property is still reported.
"""

PREDICATES = {}


def predicate(key):
    def deco(fn):
        PREDICATES[key] = fn
        return fn
    return deco


# ------------------------------------------------------------------------------------------------
# PIT masker-sharing findings (C01 / C07 / C09): identified by the *taint kinds* that the R-alive
# reference derived from the observed masks and the program's dataflow (vf/pitlib.r_alive), never
# by the generator's own labels.  Only the direct consequences of an inconsistent mask assignment
# are excused (the inconsistency itself, crashes and output mismatches of a network that contains
# it); per-layer width reports of untainted layers are never excused.
# ------------------------------------------------------------------------------------------------
KNOWN_TAINTS = {
    'add:cat': 'pit-add-of-concat-not-frozen',
    'tcat:cat': 'pit-add-of-concat-not-frozen',
    'add:fixed': 'pit-excluded-layer-not-frozen',
    'tcat:fixed': 'pit-excluded-layer-not-frozen',
    'dw:fixed': 'pit-excluded-layer-not-frozen',
    'excluded-consumer': 'pit-excluded-layer-not-frozen',
    'dw:cat': 'pit-dw-after-concat-no-masker',
    # MPS, per-channel search with the 0-bit option
    'dw:input': 'mps-input-connected-dw-prunable',
}
TAINT_EXCUSABLE = {'mask-consistency', 'export-crash', 'exported-forward-crash', 'output-mismatch',
                   'pit-forward-crash', 'cost-crash', 'unusable-after-conversion'}


def _taint_pred(key):
    def pred(v):
        if v['monitor'] not in TAINT_EXCUSABLE:
            return False
        taints = (v.get('detail') or {}).get('taints') or []
        if not taints or any(t not in KNOWN_TAINTS for t in taints):
            return False
        return key in {KNOWN_TAINTS[t] for t in taints}
    return pred


for _k in set(KNOWN_TAINTS.values()):
    PREDICATES[_k] = _taint_pred(_k)


# ------------------------------------------------------------------------------------------------
# C20: precision refinement (plinio/methods/mps/utils.py), four mechanisms
# ------------------------------------------------------------------------------------------------
def _d(v):
    return v.get('detail') or {}


def reassign_pinned_model(best, scores):
    """Executable model of the *known-defective* greedy algorithm of
    plinio.methods.mps.utils._reassign_precisions as found on the pinned tree (NOT a reference of
    correct behaviour).  It is used only to identify the known mechanisms in a witness: a
    violation of the reassignment step is a known finding only if the real function returned
    exactly what this algorithm returns; any other wrong result is a different defect."""
    import torch
    num_precisions, num_channels = scores.size()
    current = torch.argmax(scores, dim=0)
    order = torch.argsort(scores, dim=1, descending=True)
    new = current.clone()
    for prec in range(num_precisions):
        target = int(best[prec].item())
        idx = (current == prec).nonzero(as_tuple=True)[0]
        if target == 0:
            new[idx] = -1
            continue
        new[order[prec][:target]] = prec
        excess = idx[target:]
        if len(excess) > 0:
            new[excess] = -1
    for prec in range(num_precisions):
        target = int(best[prec].item())
        cur = (new == prec).sum().item()
        if cur < target:
            un = (new == -1).nonzero(as_tuple=True)[0]
            top = order[prec][torch.isin(order[prec], un)][:target - cur]
            new[top] = prec
    out = torch.zeros_like(scores)
    for ch in range(num_channels):
        if new[ch] != -1:
            out[new[ch], ch] = 1
    return out


@predicate('reassign-steal-count')
def _reassign_steal(v):
    """_reassign_precisions given valid targets: a precision's top-`target` scoring channels
    include a channel arg-max-assigned to another precision (taken regardless of its current
    precision), so some count is not met / a channel is left unassigned."""
    d = _d(v)
    if v['monitor'] == 'reassign-counts':
        return bool(d.get('targets_valid')) and bool(d.get('topk_steals')) and \
            d.get('matches_pinned_algorithm') is True
    if v['monitor'] == 'layer-counts':
        return bool(d.get('targets_valid')) and bool(d.get('reassign_count_mismatch')) and \
            d.get('reassign_matches_pinned_algorithm') is True
    if v['monitor'] == 'cost-increase':
        return d.get('reassign_count_mismatch_layers', 0) > 0 and \
            d.get('layers_with_invalid_targets', 0) == 0 and \
            d.get('layers_with_permuted_counts', 0) == 0 and \
            d.get('all_reassign_calls_match_pinned_algorithm') is True
    return False


@predicate('refinement-float-drift-targets')
def _float_drift(v):
    """optimize_prec_assignment moves fractions in float steps inside `while x > 0`: rounding
    leaves a tiny positive remainder, one more step is taken and the chosen counts contain a
    negative entry / do not sum to the number of channels."""
    d = _d(v)
    # signature of one float step too many: the counts still sum to the number of channels and the
    # only defect is one entry at -1 (compensated by +1 elsewhere)
    if v['monitor'] == 'reassign-counts':
        return d.get('targets_valid') is False and d.get('targets_off_by_one_step') is True and \
            d.get('matches_pinned_algorithm') is True
    if v['monitor'] in ('layer-counts', 'chosen-counts-not-promotion', 'channel-demotion'):
        return d.get('targets_valid') is False and d.get('targets_off_by_one_step') is True
    if v['monitor'] == 'cost-increase':
        return d.get('layers_with_invalid_targets', 0) > 0 and \
            d.get('layers_with_invalid_targets', 0) == d.get('layers_with_off_by_one_step_targets', -1)
    return False


@predicate('refinement-unsorted-precisions-permuted')
def _unsorted_perm(v):
    """optimize_prec_assignment with a precision tuple that is not in ascending order applies the
    sorting permutation instead of its inverse (and also to the never-sorted original array): the
    chosen counts are a permutation of the original ones, i.e. channels are demoted."""
    d = _d(v)
    if v['monitor'] in ('chosen-counts-not-promotion', 'channel-demotion', 'layer-counts'):
        return bool(d.get('unsorted_precisions')) and d.get('targets_valid') is not False and \
            (d.get('chosen_is_promotion') is False)
    if v['monitor'] == 'cost-increase':
        return d.get('layers_with_permuted_counts', 0) > 0 and \
            d.get('layers_with_invalid_targets', 0) == 0
    return False


@predicate('reassign-topk-demotion')
def _topk_demotion(v):
    """the chosen counts are a valid promotion, but the reassignment step picks, per precision, the
    top-scoring channels regardless of their current precision: individual channels end at a lower
    bit-width than before."""
    d = _d(v)
    return v['monitor'] == 'channel-demotion' and d.get('by_reassignment_step') is True and \
        d.get('targets_valid') is True and d.get('chosen_is_promotion') is True and \
        d.get('reassign_matches_pinned_algorithm') is True


@predicate('supernet-block-twice-different-resolution')
def _sn_diffres(v):
    """a choice block invoked twice at different resolutions, per-invocation metric: the observed
    cost equals the model "every call site charged with the first call site's output shape"."""
    d = _d(v)
    return v['monitor'] in ('mix', 'bounds', 'hard-vs-export') and \
        d.get('per_invocation') is True and d.get('diff_resolution_block') is True and \
        d.get('matches_first_callsite_shape_model') is True


@predicate('supernet-soft-in-eval')
def _sn_soft_eval(v):
    """SuperNetCombiner in eval mode without hard_softmax: theta stays the soft (temperature)
    softmax - a probability vector whose arg-max is R-select - instead of the one-hot."""
    d = _d(v)
    return v['monitor'] == 'sampling-rule' and d.get('kind') == 'sn' and \
        d.get('training') is False and d.get('hard') is False and d.get('at_argmax') is True and \
        d.get('onehot') is False


@predicate('mps-consumer-cost-detached-from-producer')
def _mps_detached_consumer(v):
    """MPS layers hand their cost functions the effective input features *detached* (TODO in the
    source): the consumers' cost does not back-propagate into the producer's pruning coefficients.
    A coefficient normally still gets a gradient from its own layer's cost; when that cost is
    identically zero - the layer's own producer is pruned away completely, so it sees 0 effective
    input features - its weight-precision coefficients raise the metric only through the consumers
    and receive an exactly zero gradient."""
    d = _d(v)
    owners = d.get('param_owner') or []
    return v['monitor'] == 'gradients' and \
        str(d.get('sig', '')).endswith('zero-gradient-where-cost-rises') and \
        str(d.get('sig', '')).startswith('mps:') and bool(owners) and \
        all(o.get('effective_input_features') is not None and
            abs(o['effective_input_features']) < 1e-6 for o in owners)


@predicate('pit-import-fuses-bn-into-user-layer')
def _pit_manual_bn(v):
    """autoconvert_layers=False: the searchable layers are the user's own objects; conversion
    attaches the fused BatchNorm and the features-calculator buffers to them, so the user's model
    gains state_dict entries and applies the BatchNorm twice."""
    d = _d(v)
    if v['monitor'] != 'user-model' or d.get('manual') is not True:
        return False
    if str(d.get('sig', '')).startswith('pit:state_dict'):
        return d.get('all_changes_are_additions_under_user_placed_layers') is True
    if str(d.get('sig', '')).startswith('pit:output'):
        return d.get('batchnorm_after_user_placed_layer') is True
    return False


@predicate('maupiti-final-conv2d-not-rescaled')
def _maupiti_final_conv(v):
    """MAUPITIConv2d as the final (not re-quantised) layer: forward returns conv(x, W_int, b_int) on
    the offset-signed integer input, without the scale/shift rescaling and the input-offset
    compensation (`_zero_point` is computed and never used), unlike MAUPITILinear's last-layer path."""
    d = _d(v)
    return v['monitor'] == 'final-layer' and d.get('sig') == 'maupiti:last' and \
        d.get('final_layer_kind') == 'conv' and d.get('layer') == d.get('final_layer')


@predicate('maupiti-final-conv2d-without-bias-crash')
def _maupiti_final_conv_nobias(v):
    """the same unfinished path: with a bias-free final Conv2d `self.bias` is None and the
    `_zero_point` expression raises TypeError inside integerize_arch."""
    d = _d(v)
    return v['monitor'] == 'integerize-crash' and d.get('sig') == 'maupiti:TypeError' and \
        d.get('final_layer_kind') == 'conv' and d.get('final_layer_has_bias') is False and \
        "'NoneType' and 'Tensor'" in str(d.get('exc', ''))


@predicate('pit-import-plain-consumer-of-user-layer')
def _pit_manual_plain_consumer(v):
    """autoconvert_layers=False ('import' mode): the masker-sharing analysis is not run, so nothing
    adapts or freezes a standard conv/linear layer fed by a user-placed PIT layer; pruning that layer
    gives a consumer whose static input width disagrees with the tensor reaching it."""
    c = v.get('case') or {}
    d = _d(v)
    return c.get('kind') == 'manual' and c.get('plain_consumer') is True and \
        'excluded-consumer' in (d.get('taints') or [])


@predicate('refinement-shared-weight-quantizer')
def _refine_shared_qtz(v):
    """optimize_prec_assignment refines layer by layer; two layers that share ONE weight quantizer (a
    convolution and the depthwise convolution behind it) are refined one after the other on the same
    coefficient matrix, the second pass overwriting what the first one chose: channels end below
    their original bit-width and the first layer's counts are not the chosen ones."""
    d = _d(v)
    if v['monitor'] in ('channel-demotion', 'layer-counts', 'chosen-not-cheapest',
                        'chosen-counts-not-promotion'):
        return bool(d.get('weight_quantizer_shared_with'))
    if v['monitor'] == 'cost-increase':
        return d.get('model_has_shared_weight_quantizer') is True
    return False
