"""Parent process:  ./check <ID> [--tier quick|thorough] [--replay FILE] [--workers N]

Shards the property's cases over worker subprocesses (subprocess.run(timeout=) per worker, never a
multiprocessing.Pool), merges what the monitors observed, classifies violations against
/verif/known_findings.json, writes replays + evidence and prints the verdict lines.

exit 0  held on everything explored (KNOWN-FINDING lines allowed)
exit 1  at least one violation not listed as a known finding (VIOLATION lines printed)
exit 2  inconclusive (a deciding monitor never fired, a worker died, harness error, ...)
"""
import argparse
import importlib
import json
import os
import shutil
import subprocess
import sys
import time
from concurrent.futures import ThreadPoolExecutor

from vf import bootstrap

VERIF = bootstrap.VERIF_DIR
WORK = os.path.join(VERIF, '.work')


def load_known():
    p = os.path.join(VERIF, 'known_findings.json')
    if not os.path.exists(p):
        return []
    with open(p) as f:
        return json.load(f).get('findings', [])


def spawn_worker(prop, tier, seed, shard, nshards, out, timeout, budget):
    cmd = [sys.executable, '-m', 'vf.worker', '--prop', prop, '--tier', tier, '--seed', str(seed),
           '--shard', str(shard), '--nshards', str(nshards), '--out', out,
           '--budget', str(budget)]
    env = dict(os.environ)
    env['PYTHONPATH'] = VERIF + os.pathsep + env.get('PYTHONPATH', '')
    log = out + '.log'
    t0 = time.time()
    try:
        with open(log, 'w') as lf:
            r = subprocess.run(cmd, cwd=VERIF, env=env, timeout=timeout, stdout=lf,
                               stderr=subprocess.STDOUT)
        rc = r.returncode
    except subprocess.TimeoutExpired:
        rc = 'timeout'
    return {'shard': shard, 'rc': rc, 'wall': time.time() - t0, 'out': out, 'log': log}


def merge(results):
    m = {'monitors': {}, 'classes': {}, 'nontrivial': set(), 'states': set(), 'violations': [],
         'samples': [], 'errors': [], 'skipped': {}, 'n_cases': 0, 'extra': {}, 'n_total_cases': 0}
    for r in results:
        for k in ('monitors', 'classes', 'skipped', 'extra'):
            for kk, vv in r.get(k, {}).items():
                m[k][kk] = m[k].get(kk, 0) + vv
        m['nontrivial'].update(r.get('nontrivial', []))
        m['states'].update(r.get('states', []))
        m['violations'].extend(r.get('violations', []))
        m['errors'].extend(r.get('errors', []))
        m['n_cases'] += r.get('n_cases', 0)
        m['n_total_cases'] = max(m['n_total_cases'], r.get('n_total_cases', 0))
    # interleave samples from the shards so that they are diverse
    pools = [list(r.get('samples', [])) for r in results]
    while any(pools) and len(m['samples']) < 6:
        for p in pools:
            if p and len(m['samples']) < 6:
                m['samples'].append(p.pop(0))
    return m


def classify(violations, known, findings_mod):
    """Split violations into (known: key -> [v]) and unknown [v] using mechanism predicates."""
    by_key, unknown = {}, []
    active = [k for k in known if k.get('status') == 'known']
    for v in violations:
        hit = None
        for k in active:
            if k['property'] != v['property']:
                continue
            pred = findings_mod.PREDICATES.get(k['key'])
            try:
                if pred is not None and pred(v):
                    hit = k
                    break
            except Exception:
                continue
        if hit is None:
            unknown.append(v)
        else:
            by_key.setdefault(hit['key'], []).append(v)
    return by_key, unknown


def vsig(v):
    d = v.get('detail') or {}
    return (v['property'], v['monitor'], str(d.get('sig', '')))


def write_replays(prop, unknown, fingerprint, limit=12):
    out = []
    seen = {}
    rdir = os.path.join(os.environ.get('VF_REPLAY_DIR') or os.path.join(VERIF, 'replays'), prop)
    os.makedirs(rdir, exist_ok=True)
    for v in unknown:
        s = vsig(v)
        seen.setdefault(s, []).append(v)
    for s, vs in list(seen.items())[:limit]:
        v = vs[0]
        name = f"{v['monitor']}-{abs(hash(json.dumps(v['case'], sort_keys=True, default=str))) % 10**10}.json"
        name = name.replace('/', '_').replace(' ', '_')
        path = os.path.join(rdir, name)
        with open(path, 'w') as f:
            json.dump({'property': v['property'], 'monitor': v['monitor'], 'detail': v['detail'],
                       'case': v['case'], 'case_index': v['case_index'], 'seed': v['seed'],
                       'tier': v['tier'], 'same_signature_count': len(vs),
                       'repo': fingerprint}, f, indent=1, default=str)
        out.append((v, path, len(vs)))
    return out


def run_replay(prop, path):
    bootstrap.setup()
    from vf.ctx import Ctx
    from vf import findings as findings_mod
    from vf.worker import seed_all
    mod = importlib.import_module('vf.props.' + prop.lower())
    with open(path) as f:
        rp = json.load(f)
    ctx = Ctx(prop, rp.get('tier', 'quick'), rp.get('seed', 0))
    if hasattr(mod, 'worker_setup'):
        mod.worker_setup(ctx)
    ctx.case = rp['case']
    ctx.case_index = rp.get('case_index')
    seed_all(ctx.seed, ctx.prop, ctx.case_index)
    mod.run_case(rp['case'], ctx)
    by_key, unknown = classify([v for v in ctx.violations if v['property'] == prop], load_known(),
                               findings_mod)
    for k, vs in by_key.items():
        print(f'KNOWN-FINDING: property={prop} {k} (reproduced by replay)')
    for v in unknown:
        print(f"VIOLATION property={prop} replay={path}")
        print('  monitor:', v['monitor'])
        print('  detail :', json.dumps(v['detail'], default=str)[:1500])
    for e in ctx.errors:
        print('HARNESS-ERROR', e['exc'], e['tb'][-800:])
    if unknown:
        return 1
    if ctx.errors:
        return 2
    print(f'replay of {path}: no unlisted violation (monitors: {ctx.monitors})')
    return 0


def main(argv=None):
    ap = argparse.ArgumentParser()
    ap.add_argument('prop')
    ap.add_argument('--tier', default=os.environ.get('VERIF_TIER', 'quick'),
                    choices=['quick', 'thorough'])
    ap.add_argument('--replay')
    ap.add_argument('--workers', type=int, default=int(os.environ.get('VERIF_WORKERS', '0')))
    ap.add_argument('--seed', type=int, default=int(os.environ.get('VERIF_SEED', '0')))
    ap.add_argument('--keep', action='store_true')
    args = ap.parse_args(argv)
    prop = args.prop.upper()
    if args.replay:
        return run_replay(prop, args.replay)

    t0 = time.time()
    bootstrap.ensure_deps()
    bootstrap.setup(import_torch=False)
    # the property module is imported in the parent only for its static description
    sys.path.insert(0, bootstrap.REPO)
    mod = importlib.import_module('vf.props.' + prop.lower())
    from vf import findings as findings_mod
    tier, seed = args.tier, args.seed
    nworkers = args.workers or min(16, os.cpu_count() or 4)
    nworkers = max(1, min(nworkers, getattr(mod, 'MAX_WORKERS', 16)))
    wdir = os.path.join(WORK, prop, f'{tier}-{seed}-{os.getpid()}')
    shutil.rmtree(wdir, ignore_errors=True)
    os.makedirs(wdir, exist_ok=True)
    timeout = getattr(mod, 'TIMEOUT', {'quick': 900, 'thorough': 7200})[tier]
    budget = getattr(mod, 'BUDGET', {'quick': 0, 'thorough': 0})[tier]
    with ThreadPoolExecutor(max_workers=nworkers) as ex:
        futs = [ex.submit(spawn_worker, prop, tier, seed, i, nworkers,
                          os.path.join(wdir, f'w{i}.json'), timeout, budget)
                for i in range(nworkers)]
        runs = [f.result() for f in futs]
    results, dead = [], []
    for r in runs:
        if os.path.exists(r['out']):
            with open(r['out']) as f:
                results.append(json.load(f))
        else:
            tail = ''
            try:
                with open(r['log']) as f:
                    tail = f.read()[-1500:]
            except Exception:
                pass
            dead.append({'shard': r['shard'], 'rc': r['rc'], 'log_tail': tail})
    m = merge(results)
    fingerprint = bootstrap.repo_fingerprint()
    known = load_known()
    mine = [v for v in m['violations'] if v['property'] == prop]
    others = [v for v in m['violations'] if v['property'] != prop]
    by_key, unknown = classify(mine, known, findings_mod)
    replays = write_replays(prop, unknown, fingerprint)

    # ---- verdict ---------------------------------------------------------------------------
    inconclusive = []
    if dead:
        inconclusive.append(f'{len(dead)} worker(s) died or timed out: {dead[0]}')
    if m['errors']:
        inconclusive.append(f"{len(m['errors'])} harness error(s), first: "
                            f"{m['errors'][0]['exc']} @ {m['errors'][0]['where']}")
    for name in getattr(mod, 'REQUIRED_MONITORS', []):
        if m['monitors'].get(name, 0) == 0:
            inconclusive.append(f'deciding monitor {name} was never evaluated')
    floor = getattr(mod, 'MIN_NONTRIVIAL', {'quick': 2, 'thorough': 2})[tier]
    if len(m['nontrivial']) < floor:
        inconclusive.append(f"only {len(m['nontrivial'])} distinct non-trivial cases (< {floor})")
    if m['extra'].get('cases_not_run_deadline'):
        # budgeted tiers may stop early; that is fine as long as the floor above is met
        pass

    for k, vs in by_key.items():
        what = next((kf['what'] for kf in known if kf['key'] == k), k)
        print(f'KNOWN-FINDING: property={prop} {k}: {what} [{len(vs)} witnesses this run]')
    for v, path, n in replays:
        print(f'VIOLATION property={prop} replay={path}')
        print(f"  monitor={v['monitor']} same-signature={n} detail="
              f"{json.dumps(v['detail'], default=str)[:600]}")
    verdict = 'held'
    rc = 0
    if unknown:
        verdict, rc = 'violated', 1
    elif inconclusive:
        verdict, rc = 'inconclusive', 2
        for r in inconclusive:
            print(f'INCONCLUSIVE property={prop} reason={r}')
    cross = {}
    for v in others:
        cross[v['property'] + ':' + v['monitor']] = cross.get(v['property'] + ':' + v['monitor'], 0) + 1

    exhaustive = getattr(mod, 'EXHAUSTIVE', {}).get(tier, False) and \
        not m['extra'].get('cases_not_run_deadline')
    cov = {
        'evaluations': int(m['n_cases']),
        'distinct_nontrivial': len(m['nontrivial']),
        'rule': mod.RULE,
        'samples': m['samples'] if m['samples'] else [{'note': 'no sample recorded'}],
        'exhaustive': bool(exhaustive),
        'monitor_calls': m['monitors'],
        'classes': dict(sorted(m['classes'].items(), key=lambda kv: -kv[1])[:80]),
        'n_classes': len(m['classes']),
        'distinct_states': len(m['states']),
        'skipped_unsupported': m['skipped'],
        'counters': m['extra'],
        'cases_generated': m['n_total_cases'],
        'workers': nworkers,
        'known_findings_seen': {k: len(vs) for k, vs in by_key.items()},
        'unlisted_violation_signatures': len(replays),
        'cross_property_observations': cross,
        'verdict': verdict,
        'inconclusive_reasons': inconclusive,
        'repo': fingerprint,
    }
    if hasattr(mod, 'EXHAUSTIVE_NOTE'):
        cov['exhaustive_note'] = mod.EXHAUSTIVE_NOTE
    ev = {'property_id': prop, 'tier': tier, 'seed': seed,
          'level': getattr(mod, 'LEVEL', 'exploration'), 'coverage': cov,
          'assumptions': getattr(mod, 'ASSUMPTIONS', []), 'wall_s': round(time.time() - t0, 2),
          'violations': len(unknown)}
    # (VF_EVIDENCE_DIR redirects the evidence of runs against scratch copies / seeded defects, so
    # that the committed evidence always comes from /repo itself)
    evdir = os.environ.get('VF_EVIDENCE_DIR') or os.path.join(VERIF, 'evidence')
    os.makedirs(evdir, exist_ok=True)
    with open(os.path.join(evdir, prop + '.json'), 'w') as f:
        json.dump(ev, f, indent=1, default=str)
    print(f"{prop} {tier} seed={seed}: verdict={verdict} cases={m['n_cases']} "
          f"nontrivial={len(m['nontrivial'])} monitors={sum(m['monitors'].values())} "
          f"known={ {k: len(v) for k, v in by_key.items()} } unlisted={len(unknown)} "
          f"skipped={sum(m['skipped'].values())} wall={ev['wall_s']}s")
    if not args.keep:
        shutil.rmtree(wdir, ignore_errors=True)
    return rc


if __name__ == '__main__':
    sys.exit(main())
