"""Harness helpers for MPS workloads (G-MPS): programs, conversion, coefficient assignment with a
guaranteed arg-max margin, reference selection (R-select) and reference bit-costs."""
import copy
import itertools
import random

import torch
import torch.nn as nn

from vf.gen import pitgen

PRECISION_TUPLES = [t for r in (1, 2, 3) for sub in itertools.combinations((2, 4, 8), r)
                    for t in itertools.permutations(sub)]          # 15 ordered non-empty subsets


def gen_mps_program(rng, depth=None, allow_add=True, allow_dw=True, max_c=6, small=False,
                    allow_reuse=False, family='2d'):
    """2D program from the MPS-supported subset of the grammar: Conv2d (incl. depthwise), Linear,
    Conv-BN, Linear-BN, ReLU, pooling, flatten, residual add.  No concat, single input."""
    for _ in range(100):
        b = pitgen.Builder(rng, family, {'max_c': max_c, 'max_f': 8, 'pmodes': True,
                                             'nonsquare': True})
        c0 = rng.randint(1, 3)
        H, W = (rng.randint(4, 6), rng.randint(4, 6)) if small else (rng.randint(5, 9), rng.randint(5, 9))
        if family == '1d':
            # Conv1d networks (MPSConv1d / QuantConv1d): un-padded or 'same'-padded convolutions
            H = rng.randint(8, 14)
            b.shapes['x0'] = (c0, H)
        else:
            b.shapes['x0'] = (c0, H, W)
        b.origin['x0'] = 'input'
        t = 'x0'
        try:
            for _i in range(depth or rng.randint(1, 4)):
                r = rng.random()
                if r < 0.5:
                    if family == '1d':
                        o = b.conv(t, s=1, pad=rng.choice(['same', 'none']), d=1,
                                   k=rng.choice([1, 3, 3, 5]))
                    else:
                        o = b.conv(t, s=rng.choice([1, 1, 2]))
                    if o is None:
                        continue
                    t = o
                    if rng.random() < 0.5:
                        t = b.bn(t)
                    t = b.act(t, rng.choice(['relu_mod', 'relu_f', 'relu_t']))
                elif r < 0.65 and allow_dw:
                    o = b.conv(t, dw=True, s=1, pad='same', k=3)
                    if o is None:
                        continue
                    t = o
                    if rng.random() < 0.5:
                        t = b.bn(t)
                    t = b.act(t, 'relu_mod')
                    o2 = b.conv(t, k=1, pad=0, s=1, d=1)
                    t = b.act(o2, 'relu_f')
                elif r < 0.85 and allow_add:
                    c = b.shapes[t][0]
                    a = b.conv(t, s=1, pad='same')
                    a = b.act(a, 'relu_f')
                    bb = b.conv(a, cout=c, s=1, pad='same')
                    if rng.random() < 0.5:
                        bb = b.bn(bb)
                    if b.origin[t] == 'input':
                        sk = b.conv(t, cout=c, k=1, s=1, pad=0, d=1)
                    else:
                        sk = t
                    t = b.add(bb, sk)
                    if rng.random() < 0.2:
                        # the same two tensors are summed a second time (two heads starting from
                        # the same residual sum), the two paths are then joined
                        t2 = b.add(bb, sk)
                        p1 = b.conv(b.act(t, 'relu_f'), cout=c, s=1, pad='same')
                        p2 = b.conv(b.act(t2, 'relu_f'), cout=c, s=1, pad='same')
                        t = b.add(b.act(p1, 'relu_f'), b.act(p2, 'relu_f'))
                        b.features.add('same-sum-twice')
                    t = b.act(t, 'relu_mod')
                elif allow_reuse and r < 0.93 and b.origin[t] != 'input' and \
                        min(b.shapes[t][1:]) >= 4:
                    # multi-scale weight sharing: the same convolution on a tensor and on its
                    # pooled version (one producer, hence one input precision; two resolutions)
                    pk = rng.choice(['max', 'avg'])
                    a = b.conv(t, s=1, pad='same')
                    name = b.ops[-1]['name']
                    bb = b.reuse(name, b.pool(t, pk))
                    a = b.pool(b.act(a, 'relu_f'), pk)
                    bb = b.act(bb, 'relu_f')
                    t = b.act(b.add(a, bb), 'relu_mod')
                    b.features.add('reuse-two-resolutions')
                else:
                    t = b.pool(t, rng.choice(['max', 'avg']))
            shp = b.shapes[t]
            n = 1
            for v in shp:
                n *= v
            if n > 300 or rng.random() < 0.4:
                t = b.pool(t, 'aavg')
            t = b.flat(t)
            if rng.random() < 0.5:
                t = b.lin(t)
                if rng.random() < 0.4:
                    t = b.bn(t)
                t = b.act(t, 'relu_f')
            t = b.lin(t, fout=rng.randint(2, 5))
            prog = {'family': family, 'inputs': [list(b.shapes['x0'])], 'ops': b.ops, 'out': t,
                    'excluded': [],
                    'features': sorted(b.features), 'traits': []}
            if not any(op['op'] == 'conv' for op in prog['ops']):
                continue
            m = pitgen.build(prog, 0)
            with torch.no_grad():
                m(*pitgen.example_inputs(prog, 2, 0))
            return prog
        except (AssertionError, RuntimeError, ValueError, TypeError):
            continue
    raise RuntimeError('could not generate an MPS program')


def convert_mps(prog, seed, w_prec=(2, 4, 8), a_prec=(2, 4, 8), per_channel=False, cost=None,
                temperature=1.0, gumbel=False, hard=False, disable_sampling=False,
                train_mode=False, full_cost=False, extra=None):
    from plinio.methods.mps import MPS, MPSType, get_default_qinfo
    from plinio.cost import params_bit
    model = pitgen.build(prog, seed)
    if train_mode:
        model.train()
    xs = pitgen.example_inputs(prog, 1, seed)
    # inputs in the input quantizer's range [0, 1]
    xs = [x.abs().clamp(max=1.0) for x in xs]
    from vf import neutral
    ex = pitgen.example_inputs(prog, neutral.example_batch(seed), seed)[0].abs().clamp(max=1.0)
    kw = dict(input_example=ex, qinfo=get_default_qinfo(w_precision=tuple(w_prec),
                                                           a_precision=tuple(a_prec)),
              w_search_type=MPSType.PER_CHANNEL if per_channel else MPSType.PER_LAYER,
              temperature=temperature, gumbel_softmax=gumbel, hard_softmax=hard,
              disable_sampling=disable_sampling, full_cost=full_cost)
    kw.update(extra or {})
    mps = MPS(model, cost=cost if cost is not None else params_bit, **kw)
    from vf import neutral
    # (README: export() crashes for the per-channel scheme)
    mps = neutral.maybe_clone(mps, seed)
    neutral.maybe_warm(mps, xs, seed, allow_export=not per_channel)
    return model, mps, xs


def mps_layers(mps):
    from plinio.methods.mps.nn import MPSModule
    return [(n, m) for n, m in mps.seed.named_modules() if isinstance(m, MPSModule)]


def unique_qtz(mps):
    """unique searchable quantizers by identity: list of (kind 'a'|'w', owner names, qtz)"""
    from plinio.methods.mps.nn.qtz import MPSBaseQtz
    seen = {}
    for n, l in mps_layers(mps):
        for attr, kind in (('out_mps_quantizer', 'a'), ('w_mps_quantizer', 'w'),
                           ('in_mps_quantizer', 'a')):
            q = getattr(l, attr, None)
            if isinstance(q, MPSBaseQtz):
                seen.setdefault(id(q), (kind, [], q))[1].append(n + '.' + attr)
    return list(seen.values())


def margin_vector(rng, n, gap=0.05, spread=2.0):
    """n coefficients with pairwise gaps >= gap and a random arg-max position"""
    for _ in range(1000):
        v = [rng.uniform(-spread, spread) for _ in range(n)]
        if all(abs(a - b) >= gap for a, b in itertools.combinations(v, 2)):
            return v
    base = list(range(n))
    rng.shuffle(base)
    return [b * gap * 2 for b in base]


def assign_coefficients(mps, rng, gap=0.05):
    """Random coefficients with margins on every unique quantizer; returns the assignment with the
    R-select arg-max (computed here from the raw values, independent of PLiNIO)."""
    out = []
    for kind, names, q in unique_qtz(mps):
        a = q.alpha
        if a.numel() == 0:
            continue
        with torch.no_grad():
            if a.dim() == 1:
                v = margin_vector(rng, a.shape[0], gap)
                a.data.copy_(torch.tensor(v))
                sel = max(range(len(v)), key=lambda i: v[i])
                out.append({'kind': kind, 'names': names, 'alpha': v, 'argmax': sel,
                            'precision': [int(p) for p in q.precision.tolist()]})
            else:
                cols = [margin_vector(rng, a.shape[0], gap) for _ in range(a.shape[1])]
                a.data.copy_(torch.tensor(cols).t())
                sel = [max(range(len(c)), key=lambda i: c[i]) for c in cols]
                out.append({'kind': kind, 'names': names, 'alpha_cols': cols, 'argmax': sel,
                            'precision': [int(p) for p in q.precision.tolist()]})
    return out


def in_range_inputs(prog, seed, batch=3, kind='in'):
    g = torch.Generator().manual_seed(seed % (2 ** 31) + 101)
    shp = [batch] + list(prog['inputs'][0])
    x = torch.rand(shp, generator=g)
    if kind == 'neg':
        x = x - 0.3
    elif kind == 'above':
        x = x * 2.5
    elif kind == 'spikes':
        x = x + (torch.rand(shp, generator=g) < 0.05).float() * 50
    return x


def perturb_parameters(mps, rng, weights=True):
    """what training does between two looks at a model: PACT clipping thresholds, biases and
    (optionally) weights move"""
    g = torch.Generator().manual_seed(rng.randrange(2 ** 31))
    nas_ids = {id(p) for p in mps.nas_parameters()}
    with torch.no_grad():
        for n, p in mps.named_parameters():
            if n.endswith('clip_val'):
                p.data.mul_(float(torch.empty(1).uniform_(0.5, 1.5, generator=g)))
            elif id(p) in nas_ids or not weights:
                continue
            elif n.endswith('bias'):
                p.data.add_(torch.randn(p.shape, generator=g) * 0.1)
            elif n.endswith('weight'):
                p.data.mul_(1.0 + 0.1 * torch.randn(p.shape, generator=g))


def plain_layers(prog):
    return {op['name']: op for op in prog['ops'] if op['op'] in ('conv', 'lin') and not op.get('reuse')}


def insitu_workload(case, ctx):
    """Random MPS models run forward (eval and train mode) so that the in-situ quantizer monitors
    see the tensors real models produce."""
    rng = random.Random(case['seed'])
    prog = gen_mps_program(rng, small=True)
    per_channel = case['i'] % 2 == 1
    w_prec = rng.choice(PRECISION_TUPLES) if not per_channel else \
        rng.choice([(0, 2, 4, 8), (2, 4, 8), (0, 4), (8, 0, 2)])
    a_prec = rng.choice(PRECISION_TUPLES)
    try:
        model, mps, xs = convert_mps(prog, case['seed'], w_prec, a_prec, per_channel=per_channel)
    except Exception as e:
        ctx.skip('mps-convert ' + type(e).__name__ + ': ' + str(e)[:80])
        return
    assign_coefficients(mps, rng)
    for mode in ('eval', 'train'):
        getattr(mps, mode)()
        for kind in ('in', 'neg', 'above', 'spikes'):
            with torch.no_grad():
                mps(in_range_inputs(prog, case['seed'], 2, kind))
    ctx.count('insitu_models')
