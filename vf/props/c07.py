"""C07 - importing a model is behaviour-preserving and leaves the user model intact.

Monitor: differential oracle against a deep copy of the seed taken before conversion (outputs of
the wrapper in eval mode, architecture of an immediate export), invariant snapshots of the
training flag of every sub-module of the wrapper, and SHA-256 of every tensor of the user's
state_dict plus its eval-mode output before/after conversion.
"""
import copy
import hashlib
import random

import torch
import torch.nn as nn

from vf import pitlib, mpslib, snlib
from vf.gen import pitgen

ID = 'C07'
LEVEL = 'exploration'
RULE = ('cases = random G-PIT programs (BatchNorm after conv/linear, bias on/off, depthwise, '
        'residual add, concat, two-input forwards, a fixed first layer, a conv(+BatchNorm) invoked twice) '
        'x fold_bn on/off x model '
        'handed over in train or eval mode, user-placed searchable layers with '
        'autoconvert_layers=False; G-MPS programs x train/eval hand-over (mode flags only); G-SN '
        'networks: identical-copy branches under the initial uniform mixture, and every branch '
        'under hard selection against the same network with that branch alone.  Non-trivial: the '
        'program contains a BatchNorm, a join or a depthwise layer (PIT), or >= 2 different '
        'branches (SuperNet); distinct = hash of (program, options).')
RULE += ('  Round 2: BatchNorm with non-default eps; SuperNet seeds handed over in train mode, with user blocks whose behaviour depends on self.training.')
RULE += ('  Round 5: a conv->BN pair invoked twice whose later invocation has a pre-BN consumer (must be refused or preserved).')
ASSUMPTIONS = [
    'the user object\'s own .training flag is not asserted (PLiNIO\'s tracer calls model.eval() on '
    'it; the statement speaks of the mode the *conversion keeps*, i.e. the wrapper)',
    'unfused import is compared bit-exactly, fold_bn=True within 1e-5*(1+|y|)',
    'MPS folds BatchNorm into the caller\'s layers by design: the user model is not compared there',
]
REQUIRED_MONITORS = ['c07.pit_output', 'c07.export_arch', 'c07.mode_flags', 'c07.user_model',
                     'c07.supernet_output', 'c07.mps_mode']
MIN_NONTRIVIAL = {'quick': 150, 'thorough': 2500}
EXHAUSTIVE = {'quick': False, 'thorough': False}


def cases(tier, seed):
    cs = []
    n = 360 if tier == 'quick' else 6000
    for i in range(n):
        cs.append({'kind': 'pit', 'prog_seed': seed * 1000003 + 60000 + i,
                   'family': '1d' if i % 2 == 0 else '2d', 'fold': (i // 2) % 2 == 1,
                   'train': (i // 4) % 2 == 1, 'seed': seed * 7919 + i})
    for i in range(32 if tier == 'quick' else 400):
        cs.append({'kind': 'pit-reuse', 'prog_seed': seed * 29 + i, 'family': '1d' if i % 2 else '2d',
                   'fold': (i // 2) % 2 == 1, 'train': False, 'same': (i // 4) % 2 == 0,
                   'with_bn': (i // 8) % 2 == 0, 'seed': seed * 47 + i})
    for i in range(40 if tier == 'quick' else 500):
        cs.append({'kind': 'pit-manual', 'prog_seed': seed * 31 + i, 'family': '1d' if i % 2 else '2d',
                   'fold': False, 'train': i % 4 < 2, 'seed': seed * 37 + i})
    for i in range(60 if tier == 'quick' else 800):
        cs.append({'kind': 'mps', 'prog_seed': seed * 1000003 + 61000 + i, 'train': i % 2 == 0,
                   'per_channel': (i // 2) % 2 == 1, 'seed': seed * 41 + i})
    for i in range(60 if tier == 'quick' else 800):
        cs.append({'kind': 'sn', 'net_seed': seed * 1000003 + 62000 + i,
                   'variant': ['copies', 'hard-each', 'noblocks'][i % 3], 'seed': seed * 43 + i,
                   # the mode the user's model is in when it is handed to SuperNet
                   'user_train': (i // 3) % 2 == 1})
    return cs


def worker_setup(ctx):
    pass


def sd_hash(model):
    return {k: hashlib.sha256(v.detach().cpu().numpy().tobytes()).hexdigest()[:16]
            for k, v in model.state_dict().items()}


def arch_of(m):
    if isinstance(m, (nn.Conv1d, nn.Conv2d)):
        return (type(m).__name__, m.in_channels, m.out_channels, tuple(m.kernel_size),
                tuple(m.stride), m.padding if isinstance(m.padding, str) else tuple(m.padding),
                tuple(m.dilation), m.groups)
    if isinstance(m, nn.Linear):
        return (type(m).__name__, m.in_features, m.out_features)
    if isinstance(m, (nn.BatchNorm1d, nn.BatchNorm2d)):
        return (type(m).__name__, m.num_features, m.eps, m.momentum, m.affine)
    if isinstance(m, nn.ConstantPad1d):
        return (type(m).__name__, tuple(m.padding))
    return None


def flags_of(wrapper):
    return {n: m.training for n, m in wrapper.named_modules()}


def run_pit(case, ctx):
    rng = random.Random(case['prog_seed'])
    if case['kind'] == 'pit-reuse':
        pre = case['with_bn'] and (case['seed'] // 16) % 2 == 1
        prog = pitgen.reuse_program(rng, case['family'], case['same'], case['with_bn'],
                                    pre_bn_consumer=pre,
                                    bn_variant=None if pre else
                                    [None, 'one-site', None, 'two-bns'][(case['seed'] // 3) % 4])
    elif case['kind'] == 'pit-manual':
        prog = pitgen.manual_program(rng, case['family'])
    else:
        prog = pitgen.gen_valid_program(rng, family=case['family'],
                                        opts={'p_fixed_stem': 0.2, 'allow_fixed': True,
                                              'p_two_inputs': 0.25})
    user = pitgen.build(prog, case['seed'])
    ref = copy.deepcopy(user)
    ref.eval()
    xs = pitgen.example_inputs(prog, 3, case['seed'] + 1, scale=1.3)
    with torch.no_grad():
        y0 = ref(*xs)
    h0 = sd_hash(user)
    if case['train']:
        user.train()
    from plinio.methods import PIT
    try:
        ex = pitgen.example_inputs(prog, 1, case['seed'])
        pit = PIT(user, input_example=pitgen.input_example_arg(prog, ex), fold_bn=case['fold'],
                  exclude_names=tuple(prog.get('excluded', ())),
                  autoconvert_layers=not prog.get('manual', False))
    except Exception as e:
        if pitlib.is_unsupported(e):
            ctx.skip(type(e).__name__ + ': ' + str(e)[:80])
        else:
            ctx.violation('import-crash', {'sig': type(e).__name__ + ':' + str(e)[:50],
                                           'exc': repr(e)[:300], 'features': prog['features']})
        return
    for f in prog['features']:
        ctx.cls('feat:' + f)
    ctx.cls(f"pit-fold{int(case['fold'])}-{'train' if case['train'] else 'eval'}")
    # ---- (iii) mode flags ------------------------------------------------------------------------
    ctx.mon('c07.mode_flags')
    fl = flags_of(pit)
    wrong = [n for n, t in fl.items() if t != case['train']]
    if wrong:
        ctx.violation('mode-flags', {'sig': 'pit:' + ('train' if case['train'] else 'eval'),
                                     'handed_over_training': case['train'],
                                     'modules_in_other_mode': wrong[:8]})
    # ---- (iv) the user's object is untouched ---------------------------------------------------
    ctx.mon('c07.user_model')
    h1 = sd_hash(user)
    user_placed = [op['name'] for op in prog['ops'] if op.get('pit')]
    bn_after_user_placed = any(
        op['op'] == 'bn' and any(o.get('out') == op['src'] and o.get('pit') for o in prog['ops'])
        for op in prog['ops'])
    if h1 != h0:
        altered = [k for k in h0 if h1.get(k) != h0[k]]
        added = [k for k in h1 if k not in h0]
        ctx.violation('user-model', {
            'sig': 'pit:state_dict' + (':manual' if prog.get('manual') else ''),
            'altered_tensors': altered[:6], 'added_tensors': added[:8],
            'manual': bool(prog.get('manual')),
            'all_changes_are_additions_under_user_placed_layers':
            not altered and all(k.split('.')[0] in user_placed for k in added)})
    um = user.training
    user.eval()
    with torch.no_grad():
        yu = user(*xs)
    user.train(um)
    if not torch.equal(yu, y0):
        ctx.violation('user-model', {
            'sig': 'pit:output' + (':manual' if prog.get('manual') else ''),
            'max_abs_diff': float((yu - y0).abs().max()), 'manual': bool(prog.get('manual')),
            'batchnorm_after_user_placed_layer': bn_after_user_placed})
    # ---- (i) wrapped model == original in eval mode ----------------------------------------------
    pit.eval()
    try:
        with torch.no_grad():
            yp = pit(*xs)
    except Exception as e:
        ctx.violation('pit-forward-crash', {'sig': type(e).__name__, 'exc': repr(e)[:300],
                                            'features': prog['features']})
        return
    ctx.mon('c07.pit_output')
    if case['fold']:
        ok, d = pitlib.close(y0, yp, 1e-5)
    else:
        ok, d = torch.equal(y0, yp), float((y0 - yp).abs().max()) if y0.shape == yp.shape else -1
    if not ok:
        ctx.violation('wrapped-output', {'sig': 'pit-fold' + str(int(case['fold'])),
                                         'max_abs_diff': d, 'features': prog['features']})
    # ---- (ii) immediate export returns the original architecture ---------------------------------
    try:
        exported = pit.export()
    except Exception as e:
        ctx.violation('export-crash', {'sig': type(e).__name__, 'exc': repr(e)[:300],
                                       'features': prog['features']})
        return
    ctx.mon('c07.export_arch')
    emods = dict(exported.named_modules())
    bn_after = {}
    for op in prog['ops']:
        if op['op'] == 'bn':
            prod = next((o for o in prog['ops'] if o.get('out') == op['src']), None)
            if prod is not None and prod['op'] in ('conv', 'lin'):
                bn_after[prod['name']] = op['name']
    for name, m in ref.named_modules():
        a = arch_of(m)
        if a is None:
            continue
        if isinstance(m, (nn.BatchNorm1d, nn.BatchNorm2d)):
            owner = next((k for k, v in bn_after.items() if v == name), None)
            e = emods.get(owner + '_exported_bn') if owner else emods.get(name)
            if case['fold']:
                continue        # folded into the preceding layer by request
        else:
            e = emods.get(name)
        if prog.get('manual') and isinstance(m, (nn.Conv1d, nn.Conv2d, nn.Linear)) and \
                type(m) not in (nn.Conv1d, nn.Conv2d, nn.Linear):
            # user-placed PIT layer in the reference copy: compare hyper-parameters only
            pass
        ea = arch_of(e) if e is not None else None
        if ea is not None and a[0].startswith('PIT'):
            a = (ea[0],) + a[1:]
        if ea != a:
            ctx.violation('export-architecture', {'sig': a[0], 'layer': name, 'original': a,
                                                  'exported': ea, 'fold_bn': case['fold'],
                                                  'features': prog['features']})
            continue
        if isinstance(m, (nn.Conv1d, nn.Conv2d, nn.Linear)) and not case['fold']:
            if not torch.equal(e.weight, m.weight) or \
                    ((m.bias is None) != (e.bias is None)) or \
                    (m.bias is not None and not torch.equal(e.bias, m.bias)):
                ctx.violation('export-architecture', {'sig': 'parameters', 'layer': name})
        if isinstance(m, (nn.Conv1d, nn.Conv2d, nn.Linear)) and case['fold'] and \
                name not in bn_after and (m.bias is None) != (e.bias is None):
            ctx.violation('export-architecture', {'sig': 'bias-presence', 'layer': name})
    # "the original architecture" includes its wiring: with the statistics of the BatchNorms it
    # re-creates put back, the immediate export computes the original function
    if not prog.get('manual'):
        try:
            exported.eval()
            pitlib.sync_exported_bn(pit, exported)
            with torch.no_grad():
                ye = exported(*xs)
            ok_e, d_e = pitlib.close(y0, ye, 1e-4)
            if not ok_e:
                ctx.violation('export-architecture', {'sig': 'wiring:output', 'max_abs_diff': d_e,
                                                      'fold_bn': case['fold'],
                                                      'features': prog['features']})
        except Exception as e:
            ctx.violation('export-crash', {'sig': 'forward:' + type(e).__name__,
                                           'exc': repr(e)[:300], 'features': prog['features']})
    nontriv = set(prog['features']) & {'bn', 'add', 'cat', 'dw', 'tcat', 'two-inputs', 'manual'}
    if nontriv:
        ctx.nontriv(('pit', case['kind'], case['prog_seed'], case['family'], case['fold'],
                     case['train'], case['seed']))
    ctx.sample({'kind': case['kind'], 'features': prog['features'], 'fold_bn': case['fold'],
                'handed_over_training': case['train'], 'max_abs_diff_wrapped_vs_original': d})


def run_mps(case, ctx):
    rng = random.Random(case['prog_seed'])
    prog = mpslib.gen_mps_program(rng, small=True)
    try:
        model, mps, xs = mpslib.convert_mps(prog, case['seed'], per_channel=case['per_channel'],
                                            train_mode=case['train'])
    except Exception as e:
        ctx.skip(type(e).__name__ + ': ' + str(e)[:80])
        return
    ctx.mon('c07.mps_mode')
    fl = flags_of(mps)
    wrong = [n for n, t in fl.items() if t != case['train']]
    if wrong:
        ctx.violation('mode-flags', {'sig': 'mps:' + ('train' if case['train'] else 'eval'),
                                     'handed_over_training': case['train'],
                                     'modules_in_other_mode': wrong[:8]})
    ctx.cls(f"mps-{'train' if case['train'] else 'eval'}")
    ctx.nontriv(('mps', case['prog_seed'], case['train'], case['per_channel']))


def single_branch_desc(desc, picks):
    """the same network with each choice block reduced to the picked branch"""
    d = copy.deepcopy(desc)
    for st, p in zip(snlib.sn_blocks(d), picks):
        st['branches'] = [st['branches'][p]]
    return d


def run_sn(case, ctx):
    from plinio.methods import SuperNet
    rng = random.Random(case['net_seed'])
    v = case['variant']
    if v == 'noblocks':
        desc = snlib.gen_sn_desc(rng, n_blocks=1)
        desc['stages'] = [st for st in desc['stages'] if st['type'] != 'sn']
        # channel bookkeeping: rebuild c_last from the remaining fixed convs
        c = desc['input'][0]
        for st in desc['stages']:
            if st['type'] == 'conv':
                if st['cin'] != c:
                    st['cin'] = c
                if st.get('again'):          # a layer applied twice maps c -> c
                    st['cout'] = c
                c = st['cout']
            if st['type'] == 'bn':
                st['c'] = c
        desc['c_last'] = c
    else:
        desc = snlib.gen_sn_desc(rng, max_branches=4,
                                 kinds=snlib.BRANCH_KINDS + ['block_drop', 'block_drop'])
    blocks = snlib.sn_blocks(desc)
    user = snlib.build_sn(desc, case['seed'])
    if v == 'copies':
        # every branch of a block is an identical copy of its first branch
        for st in blocks:
            st['branches'] = [dict(st['branches'][0]) for _ in st['branches']]
        user = snlib.build_sn(desc, case['seed'])
        with torch.no_grad():
            for st in blocks:
                m = getattr(user, st['name'])
                for b in list(m.sn_branches)[1:]:
                    b.load_state_dict(m.sn_branches[0].state_dict())
    x = snlib.sn_input(desc, case['seed'], 3)
    ref = copy.deepcopy(user)
    ref.eval()
    with torch.no_grad():
        y0 = ref(x)
    h0 = sd_hash(user)
    if case.get('user_train'):
        user.train()
        ctx.cls('sn-user-in-train-mode')
    if any(b['kind'] == 'block_drop' for st in blocks for b in st['branches']):
        ctx.cls('sn-block-reads-training-flag')
    try:
        sn = SuperNet(user, input_example=snlib.sn_input(desc, case['seed'], 1))
    except Exception as e:
        ctx.violation('import-crash', {'sig': 'sn:' + type(e).__name__, 'exc': repr(e)[:300]})
        return
    ctx.mon('c07.user_model')
    h1 = sd_hash(user)
    if h1 != h0:
        ctx.violation('user-model', {'sig': 'sn:state_dict', 'changed': [
            k for k in h0 if h1.get(k) != h0[k]][:6]})
    user.eval()
    with torch.no_grad():
        yu = user(x)
    if not torch.equal(yu, y0):
        ctx.violation('user-model', {'sig': 'sn:output',
                                     'max_abs_diff': float((yu - y0).abs().max())})
    sn.eval()
    ctx.mon('c07.supernet_output')
    ctx.cls('sn-' + v)
    if v in ('copies', 'noblocks'):
        with torch.no_grad():
            ys = sn(x)
        ok, d = pitlib.close(y0, ys, 1e-5) if v == 'copies' else (torch.equal(y0, ys), 0.0)
        if not ok:
            ctx.violation('wrapped-output', {'sig': 'sn:' + v, 'max_abs_diff': d})
        try:
            exported = sn.export()
            exported.eval()
            with torch.no_grad():
                ye = exported(x)
            if not pitlib.close(y0, ye, 1e-5)[0]:
                ctx.violation('export-architecture', {'sig': 'sn-export-output:' + v})
        except Exception as e:
            ctx.violation('export-crash', {'sig': 'sn:' + type(e).__name__, 'exc': repr(e)[:300]})
        if v == 'copies' and any(len(st['branches']) >= 2 for st in blocks):
            ctx.nontriv(('sn', v, case['net_seed']))
        if v == 'noblocks':
            ctx.nontriv(('sn', v, case['net_seed']))
        return
    # hard selection of each branch vs the same network with that branch alone
    sn.update_softmax_options(hard=True)
    maxb = max(len(st['branches']) for st in blocks)
    for i in range(maxb):
        picks = [min(i, len(st['branches']) - 1) for st in blocks]
        snlib.set_winners(sn, desc, picks, rng)
        with torch.no_grad():
            ys = sn(x)
        alone_desc = single_branch_desc(desc, picks)
        alone = snlib.build_sn(alone_desc, case['seed'])
        # same weights: copy from the reference of the full network
        with torch.no_grad():
            sd = ref.state_dict()
            new_sd = {}
            for k, own in alone.state_dict().items():
                if 'sn_combiner' in k:
                    new_sd[k] = own
                    continue
                kk = k
                for st, p in zip(blocks, picks):
                    pre = st['name'] + '.sn_branches.0'
                    if k.startswith(pre):
                        kk = st['name'] + f'.sn_branches.{p}' + k[len(pre):]
                new_sd[k] = sd[kk]
            alone.load_state_dict(new_sd)
        alone.eval()
        with torch.no_grad():
            ya = alone(x)
        if not pitlib.close(ya, ys, 1e-5)[0]:
            ctx.violation('wrapped-output', {'sig': 'sn:hard-branch-vs-alone', 'picks': picks,
                                             'max_abs_diff': float((ya - ys).abs().max())})
    ctx.nontriv(('sn', v, case['net_seed']))
    ctx.sample({'kind': 'sn', 'variant': v,
                'blocks': [[b['kind'] for b in st['branches']] for st in blocks]})


def run_case(case, ctx):
    if case['kind'].startswith('pit'):
        run_pit(case, ctx)
    elif case['kind'] == 'mps':
        run_mps(case, ctx)
    else:
        run_sn(case, ctx)
