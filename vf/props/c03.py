"""C03 - SuperNet export keeps exactly the arg-max branch of every choice block.

Monitor: (i) module-tree oracle on the exported network (surviving branch indices == {R-select},
no combiner reachable, layers outside choice blocks present with identical type and bit-identical
parameters); (ii) bit-exact differential oracle between the SuperNet under hard selection in eval
mode and the exported network.
"""
import random
import re

import torch
import torch.nn as nn

from vf import snlib

ID = 'C03'
LEVEL = 'exploration'
RULE = ('cases = random G-SN networks (1..3 choice blocks of 2..12 branches drawn from single '
        'conv, nn.Sequential, depthwise-separable Sequential, user block ending in a module / in '
        'a functional op / in a tensor method, nn.Identity; blocks used once or twice (same / '
        'different resolution); fixed conv/BN/pool layers around) x winner combinations: '
        'exhaustive when the product of branch counts is <= 64, otherwise every branch of every '
        'block wins at least once plus random combinations; coefficient margin >= 0.05; plus tied '
        'maxima (uniform initial coefficients, partial ties): one branch survives and it is the one '
        'hard selection evaluates.  '
        'Non-trivial: the winner is not branch 0 for at least one block; distinct = hash of '
        '(network, winners).')
RULE += ('  Round 3: in every other winner combination export() is called right after the coefficients were re-assigned, the last forward having run with other coefficients (stale sample).')
RULE += ('  Round 4b: half of the combinations call export() on a SuperNet left in training mode.')
ASSUMPTIONS = ['hard selection = update_softmax_options(hard=True) + eval mode',
               'bit-exact comparison: 1*y_w + 0*y_i is exact for finite y (finiteness asserted)']
REQUIRED_MONITORS = ['c03.tree', 'c03.bit_exact', 'c03.fixed_layers']
MIN_NONTRIVIAL = {'quick': 300, 'thorough': 5000}
EXHAUSTIVE = {'quick': False, 'thorough': False}
EXHAUSTIVE_NOTE = 'winner combinations are exhaustive per network when their product is <= 64'
TIMEOUT = {'quick': 1200, 'thorough': 7200}


def cases(tier, seed):
    cs = []
    n = 40 if tier == 'quick' else 1500
    for i in range(n):
        cs.append({'kind': 'random', 'net_seed': seed * 1000003 + i, 'seed': seed * 7919 + i,
                   'limit': 24 if tier == 'quick' else 64})
    # many-branch blocks: the name-prefix hazard sn_branches.1 vs sn_branches.10/11
    for i in range(4 if tier == 'quick' else 90):
        cs.append({'kind': 'wide', 'net_seed': seed * 1000003 + 5000 + i, 'seed': seed * 31 + i,
                   'branches': [10, 11, 12][i % 3], 'limit': 14 if tier == 'quick' else 40})
    return cs


def worker_setup(ctx):
    from vf import neutral
    neutral.enable(ctx)      # neutral prefixes after conversion in half of the cases
    pass


def run_case(case, ctx):
    from plinio.methods.supernet.nn.combiner import SuperNetCombiner
    rng = random.Random(case['net_seed'])
    if case['kind'] == 'wide':
        desc = snlib.gen_sn_desc(rng, n_blocks=1, force_branches=case['branches'],
                                 allow_twice=rng.random() < 0.3)
    else:
        desc = snlib.gen_sn_desc(rng)
    # blocks configured for Gumbel sampling: in eval mode (where the hard-selection reference is
    # taken) they sample without noise, so everything below applies unchanged
    if (case['seed'] // 5) % 3 == 0:
        desc['gumbel'] = True
        ctx.cls('gumbel-configured-blocks')
    blocks = snlib.sn_blocks(desc)
    wrng = random.Random(case['seed'])
    combos, exhaustive = snlib.winner_combinations(desc, wrng, case['limit'])
    # tied maxima (the uniform initial coefficients are the most common instance): which branch
    # wins is not prescribed, but exactly one branch must survive and it must be the one the
    # hard-selection SuperNet evaluates
    combos = combos + [('tie', 'uniform'), ('tie', 'partial'), ('tie', 'partial-neg')]
    x = snlib.sn_input(desc, case['seed'], 2)
    for st in blocks:
        for b in st['branches']:
            ctx.cls('branch:' + b['kind'])
        ctx.cls('twice:' + str(st.get('twice')))
        ctx.cls('nbranches:' + str(len(st['branches'])))
    for ci, winners in enumerate(combos):
        try:
            model, sn = snlib.convert_sn(desc, case['seed'])
        except Exception as e:
            ctx.skip(type(e).__name__ + ': ' + str(e)[:80])
            return
        sn.eval()
        tie = None
        if winners and winners[0] == 'tie':
            tie = winners[1]
            alphas = {}
            cmb = dict(snlib.combiners(sn))
            with torch.no_grad():
                for st in blocks:
                    c = cmb[st['name'] + '.sn_combiner']
                    n = c.alpha.numel()
                    if tie == 'uniform':
                        vals = [1.0 / n] * n            # the initial state
                    else:
                        top = -0.25 if tie == 'partial-neg' else 0.75
                        vals = [top - 0.1 - 0.1 * wrng.random() for _ in range(n)]
                        for i in wrng.sample(range(n), min(n, wrng.choice([2, 2, 3, n]))):
                            vals[i] = top
                    c.alpha.data.copy_(torch.tensor(vals))
                    alphas[st['name']] = vals
            ctx.cls('tie:' + tie)
            winners = [None] * len(blocks)
        else:
            alphas = snlib.set_winners(sn, desc, winners, wrng)
        sn.update_softmax_options(hard=True)
        # "for every value of the selection coefficients": in every other combination the last
        # forward pass ran with OTHER coefficients (its stored sample points at other branches),
        # the coefficients are then re-assigned - as after loading a checkpoint - and export() is
        # called straight away; the hard-selection reference is computed after the export
        export_first = tie is None and ci % 2 == 1
        if export_first:
            others = [(w + 1 + wrng.randrange(max(1, len(st['branches']) - 1))) % len(st['branches'])
                      for st, w in zip(blocks, winners)]
            snlib.set_winners(sn, desc, others, wrng)
            with torch.no_grad():
                sn(x)
            alphas = snlib.set_winners(sn, desc, winners, wrng)
            ctx.cls('order:export-before-forward')
            y_sn = None
        else:
            with torch.no_grad():
                y_sn = sn(x)
        fixed_before = {n: {k: v.clone() for k, v in m.state_dict().items()}
                        for n, m in sn.seed.named_modules()
                        if 'sn_branches' not in n and 'sn_combiner' not in n and
                        isinstance(m, (nn.Conv2d, nn.Linear, nn.BatchNorm2d))}
        wkinds = [st['branches'][w]['kind'] if w is not None else 'tie'
                  for st, w in zip(blocks, winners)]
        detail0 = {'winners': winners, 'winner_kinds': wkinds,
                   'n_branches': [len(st['branches']) for st in blocks],
                   'twice': [st.get('twice') for st in blocks]}
        # export() is also called on a SuperNet left in training mode (as a search loop leaves it):
        # the layers outside the choice blocks - BatchNorm statistics included - stay untouched
        if ci % 4 >= 2:
            sn.train()
            ctx.cls('order:export-in-train-mode')
        try:
            exported = sn.export()
            exported.eval()
        except Exception as e:
            ctx.violation('export-crash', dict(detail0, sig=type(e).__name__ + ':' + '+'.join(
                sorted(set(wkinds))), exc=repr(e)[:300]))
            continue
        sn.eval()
        if y_sn is None:
            with torch.no_grad():
                y_sn = sn(x)
        # ---- (i) module tree ---------------------------------------------------------------------
        ctx.mon('c03.tree')
        names = [n for n, _ in exported.named_modules()]
        for n, m in exported.named_modules():
            if isinstance(m, SuperNetCombiner):
                ctx.violation('tree', dict(detail0, sig='combiner-survives', module=n))
        for st, w in zip(blocks, winners):
            idx = set()
            for n in names:
                mt = re.match(r'^' + re.escape(st['name']) + r'\.sn_branches\.(\d+)(\.|$)', n)
                if mt:
                    idx.add(int(mt.group(1)))
            if (w is not None and idx != {w}) or (w is None and len(idx) != 1):
                ctx.violation('tree', dict(detail0, sig='surviving-branches' + (
                    ':tie' if w is None else ''), block=st['name'], surviving=sorted(idx),
                    winner=w, alpha=alphas.get(st['name'])))
        ctx.mon('c03.fixed_layers')
        emods = dict(exported.named_modules())
        for n, sd in fixed_before.items():
            e = emods.get(n)
            if e is None:
                ctx.violation('fixed-layers', dict(detail0, sig='missing', layer=n))
                continue
            if type(e) is not type(dict(sn.seed.named_modules())[n]):
                ctx.violation('fixed-layers', dict(detail0, sig='type-changed', layer=n))
            esd = e.state_dict()
            for k, v in sd.items():
                if k not in esd or not torch.equal(esd[k], v):
                    ctx.violation('fixed-layers', dict(detail0, sig='parameters-changed', layer=n,
                                                       tensor=k))
        # ---- (ii) bit-exact outputs ----------------------------------------------------------------
        try:
            with torch.no_grad():
                y_e = exported(x)
        except Exception as e:
            ctx.violation('exported-forward-crash', dict(detail0, sig=type(e).__name__,
                                                         exc=repr(e)[:300]))
            continue
        ctx.mon('c03.bit_exact')
        if not bool(torch.isfinite(y_sn).all()):
            ctx.violation('nonfinite', dict(detail0, sig='supernet-output-nonfinite'))
        if y_e.shape != y_sn.shape or not torch.equal(y_sn, y_e):
            ctx.violation('output-not-identical', dict(
                detail0, sig='output' + (':tie-' + tie if tie else ''), alpha=alphas,
                max_abs_diff=float((y_sn - y_e).abs().max())
                if y_e.shape == y_sn.shape else 'shape'))
        if any(w != 0 for w in winners):
            ctx.nontriv((case['net_seed'], tuple(winners)))
        ctx.sample({'blocks': [{'name': st['name'], 'branches': [b['kind'] for b in st['branches']],
                                'twice': st.get('twice')} for st in blocks],
                    'winners': winners, 'alpha': alphas,
                    'winner_combinations_exhaustive': exhaustive})
