"""C08 - no setting of the architectural parameters can search a layer out of existence.

Monitor: invariant hooks on live state after every parameter assignment (widths, kernel taps and
dilations >= 1, frozen groups at full width, summary free of zeros) + export/forward/shape oracle,
plus the in-situ contract on PITConv1d._time_mask (non-empty, contains the most recent tap).
"""
import math
import random

import torch
import torch.nn as nn

from vf import pitlib
from vf.gen import pitgen
from vf.props import c01

ID = 'C08'
LEVEL = 'exploration'
RULE = ('cases = (a) exhaustive: causal Conv1d with kernel 1..12 x initial dilation 1..3 x every '
        'number r in 0..K of leading pruned beta elements x every number g in 0..len(gamma) of '
        'leading pruned gamma elements (fully pruned, open and partially pruned masks), binary and '
        'real-valued; (b) random G-PIT programs (incl. input-/output-connected layers, depthwise '
        'chains, shared groups) with every mask parameter set through param.data.copy_ to '
        'adversarial reals (all-zero, negative, +-1e30, 3e38, +-0.5 threshold values, N(0,1)).  '
        'Non-trivial: at least one masker fully pruned (all elements below threshold) or holding '
        'an extreme value; distinct = hash of (program, assignment).')
RULE += ("  Round 3: heads of two classifiers concatenated into the output; the output returned as y, (y,), [y] or {'logits': y}.")
RULE += ("  Round 5: per-axis conv geometry; padding='valid' as a string; nested concat heads.")
ASSUMPTIONS = [
    'NaN/inf are not real values and are not assigned',
    'frozen (strided) time maskers are not assigned: an optimiser cannot reach them (C11)',
    'the set of layers that must keep full width is computed by an independent program-level '
    'union-find (residual sums, depthwise, time concat tied to an input or to the output)',
]
REQUIRED_MONITORS = ['c08.invariants', 'c08.export_runs', 'c01.time_mask_contract',
                     'c08.features_mask_contract']
MIN_NONTRIVIAL = {'quick': 300, 'thorough': 3000}
EXHAUSTIVE = {'quick': False, 'thorough': False}
EXHAUSTIVE_NOTE = 'the (K 1..12, d 1..3, r 0..K, g 0..len(gamma)) sub-space is enumerated completely'


def cases(tier, seed):
    cs = []
    for d in (1, 2, 3):
        for K in range(1, 13):
            glen = max(math.ceil(math.log(K, 2)), 1)
            for r in range(K + 1):
                for g in range(glen + 1):
                    styles = ('binary',) if (tier == 'quick' and (K + r + g) % 2) else ('binary', 'real')
                    for st in styles:
                        cs.append({'kind': 'sweep', 'K': K, 'd': d, 'r': r, 'g': g, 'style': st,
                                   'pos': ['first', 'middle', 'before_flatten', 'residual'][(K + r + g + d) % 4],
                                   'seed': seed * 7919 + len(cs)})
    n = 600 if tier == 'quick' else 16000
    modes = ['allpruned', 'adversarial', 'zeros-neg', 'huge', 'normal', 'adversarial', 'mixed']
    for i in range(n):
        cs.append({'kind': 'random', 'prog_seed': seed * 1000003 + 900000 + i,
                   'family': '1d' if i % 2 == 0 else '2d', 'mask_mode': modes[i % len(modes)],
                   'fold': (i // 2) % 2 == 1, 'time_mode': ['zero', 'adv', 'pattern'][i % 3],
                   'seed': seed * 104729 + 13 + i})
    # a layer invoked twice in two different width-sharing groups; pad modules per call site / shared
    for i, c in enumerate(pitgen.special_cases(48 if tier == 'quick' else 960, seed, {'kind': 'random'})):
        cs.append(dict(c, mask_mode=modes[i % len(modes)], fold=(i // 2) % 2 == 1,
                       time_mode=['zero', 'adv', 'pattern'][i % 3]))
    # the repository's own PIT tests (incl. the optimiser-driven searches) under the in-situ
    # features-mask / time-mask contracts
    from vf import suitewl
    cs += suitewl.cases(tier, select=('test_pit/',), slow_in_quick=('test_combined_loss_const_labels',))
    return cs


def worker_setup(ctx):
    c01.worker_setup(ctx)   # in-situ _time_mask contract (reported under C08 here)
    from vf.mon import insitu
    insitu.install_features_mask(ctx)   # in-situ: binarised features masks never empty


def check_invariants(ctx, prog, pit, what):
    from plinio.methods.pit.nn import PITConv1d, PITConv2d, PITLinear
    ctx.mon('c08.invariants')
    _, must_be_full = pitlib.width_groups(prog)
    summ = pit.summary()
    for name, layer in pitlib.pit_layers(pit):
        if not isinstance(layer, (PITConv1d, PITConv2d, PITLinear)):
            continue
        vals = {'out': layer.out_features_opt, 'in': layer.in_features_opt}
        full = layer.out_features if isinstance(layer, PITLinear) else layer.out_channels
        if isinstance(layer, PITConv1d):
            vals['k'] = layer.kernel_size_opt[0]
            vals['dil'] = layer.dilation_opt[0]
        for k, v in vals.items():
            if v < 1:
                ctx.violation('invariant', {'sig': 'zero-' + k, 'layer': name, 'values': vals,
                                            'what': what, 'traits': prog.get('traits')})
        if name in must_be_full and vals['out'] != full:
            ctx.violation('invariant', {'sig': 'frozen-width', 'layer': name, 'values': vals,
                                        'full': full, 'what': what, 'traits': prog.get('traits')})
        s = summ.get(name, {})
        for k, v in s.items():
            vv = v[0] if isinstance(v, tuple) else v
            if isinstance(vv, int) and vv < 1:
                ctx.violation('invariant', {'sig': 'summary-zero', 'layer': name, 'summary': s,
                                            'what': what})
    return summ


def check_export(ctx, prog, model, pit, summ, seed, what):
    xs = pitgen.example_inputs(prog, 2, seed + 9)
    with torch.no_grad():
        y0 = pitgen.out_tensor(model(*xs))
    try:
        exported = pit.export()
        exported.eval()
    except Exception as e:
        ctx.violation('export-crash', {'sig': type(e).__name__, 'exc': repr(e)[:300], 'what': what,
                                       'features': prog['features'], 'traits': prog.get('traits')})
        return None
    try:
        with torch.no_grad():
            y = pitgen.out_tensor(exported(*xs))
    except Exception as e:
        ctx.violation('exported-forward-crash', {'sig': type(e).__name__, 'exc': repr(e)[:300],
                                                 'what': what, 'features': prog['features'],
                                                 'traits': prog.get('traits')})
        return exported
    ctx.mon('c08.export_runs')
    if tuple(y.shape) != tuple(y0.shape):
        ctx.violation('output-shape', {'sig': 'shape', 'exported': list(y.shape),
                                       'original': list(y0.shape), 'what': what,
                                       'features': prog['features']})
    if not bool(torch.isfinite(y).all()):
        ctx.violation('output-nonfinite', {'sig': 'nonfinite', 'what': what,
                                           'features': prog['features']})
    emods = dict(exported.named_modules())
    for name, s in summ.items():
        e = emods.get(name)
        if not isinstance(e, (nn.Conv1d, nn.Conv2d, nn.Linear)):
            continue
        got = {'in_features': e.in_features if isinstance(e, nn.Linear) else e.in_channels,
               'out_features': e.out_features if isinstance(e, nn.Linear) else e.out_channels}
        if isinstance(e, nn.Conv1d):
            got['kernel_size'] = tuple(e.kernel_size)
            if e.kernel_size[0] > 1:
                got['dilation'] = tuple(e.dilation)
        for k, v in got.items():
            if k in s and s[k] != v:
                ctx.violation('export-vs-summary', {'sig': k, 'layer': name, 'summary': s,
                                                    'exported': got, 'what': what})
    return exported


def run_case(case, ctx):
    if case.get('kind') == 'repo-suite':
        from vf import suitewl
        suitewl.run(case, ctx, ('c08.features_mask_contract', 'c01.time_mask_contract'))
        return
    rng = random.Random(case['seed'])
    if case['kind'] == 'sweep':
        K, d, r, g = case['K'], case['d'], case['r'], case['g']
        prog = pitgen.single_conv_program(K, d, case['pos'])
        model, pit, _ = pitlib.convert_pit(prog, case['seed'])
        pit.eval()
        layer = dict(pitlib.pit_layers(pit))['tc']
        beta, gamma = pitlib.time_pattern_values(K, r, g, case['style'], rng)
        pitlib.set_mask(layer.timestep_masker, beta)
        pitlib.set_mask(layer.dilation_masker, gamma)
        pitlib.apply_channel_masks(pit, rng, rng.choice(['allpruned', 'binary', 'adversarial']))
        what = f'sweep-K{K}-d{d}-r{r}-g{g}-{case["style"]}'
        ctx.cls(f'sweep-K{K}-d{d}')
        summ = check_invariants(ctx, prog, pit, what)
        check_export(ctx, prog, model, pit, summ, case['seed'], what)
        glen = max(math.ceil(math.log(K, 2)), 1)
        if r >= K - 1 or g >= glen - 1 or r > 0:
            ctx.nontriv(('sweep', K, d, r, g, case['style'], case['pos']))
        ctx.sample({'kind': 'sweep', 'K': K, 'd': d, 'beta': beta, 'gamma': gamma,
                    'summary_tc': summ.get('tc')})
        return
    if case.get('special'):
        prog = pitgen.special_program(random.Random(case['prog_seed']), case['family'],
                                      case['special'], case.get('delay', 0))
    else:
        prog = pitgen.gen_valid_program(random.Random(case['prog_seed']), family=case['family'],
                                        opts={'p_fixed_stem': 0.15, 'allow_fixed': True})
    # the same network returning its output as y, (y,), [y] or {'logits': y}
    oc = [None, None, 'tuple1', None, 'list1', None, 'dict1', None][(case['prog_seed'] // 2) % 8]
    if oc:
        prog['out_container'] = oc
        prog['features'] = sorted(set(prog['features']) | {'output-in-container'})
    elif (case['prog_seed'] // 2) % 8 in (1, 5) and not case.get('special'):
        # ... or returning a second tensor (an intermediate one) next to it
        pitgen.add_second_output(prog, random.Random(case['prog_seed'] + 1))
    try:
        model, pit, _ = pitlib.convert_pit(prog, case['seed'], fold_bn=case['fold'])
    except Exception as e:
        ctx.skip(type(e).__name__ + ': ' + str(e)[:80])
        return
    pit.eval()
    assign = pitlib.apply_channel_masks(pit, rng, case['mask_mode'])
    feats, times, dils = pitlib.unique_maskers(pit)
    tvals = []
    if case['time_mode'] == 'pattern':
        c01.assign_time_masks(pit, rng, 'real')
    else:
        for names, m in times + dils:
            if pitlib.is_frozen(m):
                continue
            n = pitlib.mask_tensor(m).numel()
            vals = [0.0] * n if case['time_mode'] == 'zero' else \
                [rng.choice(pitlib.ADVERSARIAL) for _ in range(n)]
            pitlib.set_mask(m, vals)
            tvals.append(vals)
    for f in prog['features']:
        ctx.cls('feat:' + f)
    ctx.cls('mode:' + case['mask_mode'] + '/' + case['time_mode'])
    what = 'random-' + case['mask_mode'] + '-' + case['time_mode']
    summ = check_invariants(ctx, prog, pit, what)
    check_export(ctx, prog, model, pit, summ, case['seed'], what)
    extreme = any((not a['frozen']) and (all(abs(v) <= 0.5 for v in a['alpha']) or
                                         any(abs(v) >= 1e29 for v in a['alpha'])) for a in assign) \
        or case['time_mode'] == 'zero'
    if extreme:
        ctx.nontriv(('random', case['prog_seed'], case['mask_mode'], case['time_mode'],
                     case['fold'], case['seed']))
    ctx.sample({'kind': 'random', 'features': prog['features'], 'mask_mode': case['mask_mode'],
                'time_mode': case['time_mode'],
                'alphas': [a['alpha'] for a in assign][:3], 'time_values': tvals[:2],
                'summary': summ})
