"""C09 - every layer sees exactly the alive features of the tensor that reaches it.

Monitor: reference model R-alive (program-level propagation of alive-channel vectors) compared with
five independent reports of the real code for every converted layer (features calculator value and
mask, summary, what a probing cost function is shown, exported in_channels/in_features), plus a
dynamic cross-check by forward pre-hooks (a channel the reference calls dead must be exactly zero
in the tensor that actually arrives) and a forward pass of the exported network.
"""
import itertools
import random

import torch
import torch.nn as nn

from vf import pitlib
from vf.gen import pitgen

ID = 'C09'
LEVEL = 'exploration'
RULE = ('cases = (a) every origin combination of a channel concat of 2..3 operands '
        '(searchable / fixed / network input: 9 pairs + 27 triples, enumerated) x consumer '
        '(conv, linear through a spatial flatten) x family x mask modes; (b) random G-PIT DAGs '
        'with add, cat(dim=1), time-axis cat, flatten/squeeze spellings, depthwise chains, fixed '
        '(excluded-by-name) layers; (c) exclude_types and autoconvert_layers=False (user-placed '
        'layers); (d) a low-weight class of hazard constructs (residual sum with a concat or a '
        'fixed operand, depthwise after a concat / fixed layer, fixed layer fed by a prunable '
        'tensor) whose violations are known findings; (e) MPS per-channel search with the 0-bit '
        '(pruning) option through the same oracle.  Non-trivial: a join (add / cat / flatten) with '
        'at least one pruned operand; distinct = hash of (program, masks).')
RULE += ('  Round 4: DenseNet-style chains of three or four nested concats followed by an excluded / depthwise / residual consumer.')
ASSUMPTIONS = [
    'R-alive takes every layer\'s own binarised output mask as given and models only the dataflow',
    'the dynamic cross-check is one-sided (dead => exactly zero), a ReLU may kill a live channel',
    'concat operands are distinct tensors (fx de-duplicates a repeated operand)',
]
REQUIRED_MONITORS = ['c09.in_features', 'c09.dynamic_zero', 'c09.export_forward', 'c09.probe']
MIN_NONTRIVIAL = {'quick': 150, 'thorough': 2000}
EXHAUSTIVE = {'quick': False, 'thorough': False}
EXHAUSTIVE_NOTE = 'the 36 concat origin combinations x 2 consumers x 2 families are enumerated'

HAZARDS = ('add-of-cat', 'dw-after-cat', 'add-of-fixed', 'dw-after-fixed', 'excluded-consumer')
KINDS3 = ('search', 'fixed', 'input')


def cases(tier, seed):
    cs = []
    combos = list(itertools.product(KINDS3, repeat=2)) + list(itertools.product(KINDS3, repeat=3))
    reps = 1 if tier == 'quick' else 6
    modes = ['binary', 'adversarial', 'allpruned', 'normal']
    for rep in range(reps):
        for ci, kinds in enumerate(combos):
            for fam in ('1d', '2d'):
                for cons in ('conv', 'lin'):
                    cs.append({'kind': 'origins', 'kinds': list(kinds), 'family': fam,
                               'consumer': cons, 'mask_mode': modes[(ci + rep + len(cs)) % 4],
                               'seed': seed * 7919 + len(cs)})
    n = 500 if tier == 'quick' else 14000
    for i in range(n):
        cs.append({'kind': 'random', 'prog_seed': seed * 1000003 + 300000 + i,
                   'family': '1d' if i % 2 == 0 else '2d',
                   'mask_mode': ['binary', 'mixed', 'adversarial', 'allpruned', 'normal'][i % 5],
                   'fold': (i // 2) % 3 == 0, 'seed': seed * 104729 + 31 + i})
    nh = 80 if tier == 'quick' else 800
    for i in range(nh):
        cs.append({'kind': 'hazard', 'prog_seed': seed * 1000003 + 700000 + i,
                   'family': '1d' if i % 2 == 0 else '2d', 'mask_mode': ['binary', 'allpruned'][i % 2],
                   'fold': False, 'seed': seed * 104729 + 57 + i})
    nm = 40 if tier == 'quick' else 400
    for i in range(nm):
        cs.append({'kind': 'manual', 'prog_seed': seed * 17 + i, 'family': '1d' if i % 2 else '2d',
                   'mask_mode': ['binary', 'adversarial', 'allpruned'][i % 3], 'fold': False,
                   # a standard layer right behind a user-placed searchable one
                   'plain_consumer': (i // 3) % 4 == 1,
                   'seed': seed * 31 + i})
        cs.append({'kind': 'exclude-type', 'prog_seed': seed * 1000003 + 800000 + i,
                   'family': '1d' if i % 2 else '2d', 'etype': ['linear', 'conv'][(i // 2) % 2],
                   'mask_mode': ['binary', 'allpruned'][i % 2], 'fold': False,
                   'seed': seed * 37 + i})
    # a layer invoked twice in two different width-sharing groups; pad modules per call site / shared
    for i, c in enumerate(pitgen.special_cases(48 if tier == 'quick' else 960, seed, {'kind': 'random'})):
        cs.append(dict(c, mask_mode=['binary', 'mixed', 'adversarial', 'allpruned', 'normal'][i % 5],
                       fold=(i // 2) % 3 == 0))
    for i in range(60 if tier == 'quick' else 900):
        cs.append({'kind': 'mps', 'prog_seed': seed * 1000003 + 850000 + i, 'family': '2d',
                   'w_prec': [(0, 2, 4, 8), (0, 4), (8, 0, 2), (0, 8)][i % 4], 'mask_mode': 'coeffs',
                   'seed': seed * 53 + i})
    return cs


def run_mps_case(case, ctx):
    """the same graph utilities serve MPS: per-channel search with the 0-bit (pruning) option"""
    from vf import mpslib
    rng = random.Random(case['prog_seed'])
    prog = mpslib.gen_mps_program(rng, small=True, max_c=5)
    try:
        model, mps, xs = mpslib.convert_mps(prog, case['seed'], case['w_prec'], (2, 4, 8),
                                            per_channel=True)
    except Exception as e:
        ctx.skip('mps: ' + type(e).__name__ + ': ' + str(e)[:80])
        return
    mps.eval()
    mpslib.assign_coefficients(mps, rng)
    with torch.no_grad():
        mps(mpslib.in_range_inputs(prog, case['seed'], 2))
    summ = mps.summary()
    plain = mpslib.plain_layers(prog)
    layers = dict(mpslib.mps_layers(mps))
    masks = {}
    for name, op in plain.items():
        wp = summ[name]['w_precision']
        width = op['cout'] if op['op'] == 'conv' else op['fout']
        masks[name] = [int(p != 0) for p in wp] if isinstance(wp, list) else [1] * width
    alive, findings, taint = pitlib.r_alive(prog, masks, (), pitgen.tensor_shapes(prog),
                                            one_to_one_is_dw=True)
    ctx.cls('kind:mps')
    for f in findings:
        ctx.mon('c09.mask_consistency')
        ctx.violation('mask-consistency', dict(f, sig='mps:' + f['kind'], taints=[f['kind']]))
    for name, op in plain.items():
        if taint[op['src']]:
            continue
        L = layers[name]
        want = float(sum(alive[op['src']]))
        got = float(L.input_features_calculator.features)
        own = float(L.out_features_eff)
        ctx.mon('c09.in_features')
        if got != want or own != float(sum(masks[name])):
            ctx.violation('in-features', {'sig': 'mps-in-features', 'layer': name,
                                          'calculator.features': got, 'expected_alive': want,
                                          'out_features_eff': own,
                                          'expected_out': float(sum(masks[name])), 'taints': []})
    if any(not all(alive[op['src']]) for op in plain.values()):
        ctx.nontriv(('c09-mps', case['prog_seed'], tuple(case['w_prec']), case['seed']))


def worker_setup(ctx):
    from vf import neutral
    neutral.enable(ctx)      # neutral prefixes after conversion in half of the cases
    pass


def make_probe():
    """A cost specification that records, per layer, the feature counts it is shown."""
    from plinio.cost import CostSpec
    from plinio.cost.pattern import Conv1dGeneric, Conv2dGeneric, LinearGeneric
    seen = []

    def conv_fn(spec):
        seen.append((id(spec['_parameters']), 'conv', spec['in_channels'], spec['out_channels']))
        return torch.as_tensor(spec['in_channels'], dtype=torch.float32) * 1.0

    def lin_fn(spec):
        seen.append((id(spec['_parameters']), 'lin', spec['in_features'], spec['out_features']))
        return torch.as_tensor(spec['in_features'], dtype=torch.float32) * 1.0
    probe = CostSpec(shared=True, default_behavior='zero')
    probe[Conv1dGeneric] = conv_fn
    probe[Conv2dGeneric] = conv_fn
    probe[LinearGeneric] = lin_fn
    return probe, seen


def build_case_program(case):
    rng = random.Random(case.get('prog_seed', case['seed']))
    k = case['kind']
    if case.get('special'):
        return pitgen.special_program(rng, case['family'], case['special'], case.get('delay', 0))
    if k == 'origins':
        return pitgen.cat_origin_program(rng, case['family'], case['kinds'], case['consumer'])
    if k == 'manual':
        return pitgen.manual_program(rng, case['family'], bool(case.get('plain_consumer')))
    opts = {'p_fixed_stem': 0.25, 'allow_fixed': True, 'p_two_inputs': 0.25}
    if k == 'hazard':
        opts['hazards'] = HAZARDS
        opts['p_fixed_stem'] = 0.5
        for _ in range(40):
            prog = pitgen.gen_valid_program(rng, family=case['family'], opts=opts)
            if prog['traits']:
                return prog
        return prog
    prog = pitgen.gen_valid_program(rng, family=case['family'], opts=opts)
    if k == 'random' and (case.get('prog_seed', 0) // 3) % 6 == 1:
        pitgen.add_second_output(prog, random.Random(case['prog_seed'] + 1))
    return prog


KNOWN_TAINTS = {'add:cat': 'pit-add-of-concat-not-frozen', 'tcat:cat': 'pit-add-of-concat-not-frozen',
                'add:fixed': 'pit-excluded-layer-not-frozen', 'dw:fixed': 'pit-excluded-layer-not-frozen',
                'excluded-consumer': 'pit-excluded-layer-not-frozen',
                'dw:cat': 'pit-dw-after-concat-no-masker'}


def run_case(case, ctx):
    from plinio.methods.pit.nn import PITConv1d, PITConv2d, PITLinear
    if case['kind'] == 'mps':
        return run_mps_case(case, ctx)
    prog = build_case_program(case)
    probe, seen = make_probe()
    extra = {}
    fixed_layers = set(prog.get('excluded', ()))
    autoconvert = True
    exclude_types = ()
    if case['kind'] == 'manual':
        autoconvert = False
        fixed_layers = {op['name'] for op in prog['ops']
                        if op['op'] in ('conv', 'lin') and not op.get('pit')}
    if case['kind'] == 'exclude-type':
        if case['etype'] == 'linear':
            exclude_types = (nn.Linear,)
            fixed_layers |= {op['name'] for op in prog['ops'] if op['op'] == 'lin'}
        else:
            exclude_types = (nn.Conv1d, nn.Conv2d)
            fixed_layers |= {op['name'] for op in prog['ops'] if op['op'] == 'conv'}
    try:
        model, pit, _ = pitlib.convert_pit(prog, case['seed'], fold_bn=case.get('fold', False),
                                           discrete_cost=True, cost=probe,
                                           exclude_types=exclude_types, autoconvert=autoconvert)
    except Exception as e:
        ctx.skip(type(e).__name__ + ': ' + str(e)[:80])
        return
    pit.eval()
    rng = random.Random(case['seed'] + 5)
    try:
        assign = pitlib.apply_channel_masks(pit, rng, case['mask_mode'])
        from vf import neutral
        neutral.maybe_freeze(pit, case['seed'])     # a frozen parameter group changes nothing
        layers = dict(pitlib.pit_layers(pit))
        masks = {n: [int(v) for v in l.features_mask.tolist()] for n, l in layers.items()
                 if isinstance(l, (PITConv1d, PITConv2d, PITLinear))}
    except AttributeError as e:
        # a layer without masker: conversion "succeeded" but the model is unusable
        ctx.violation('unusable-after-conversion',
                      {'sig': 'no-masker', 'exc': repr(e)[:200], 'traits': prog.get('traits'),
                       'features': prog['features'], 'taints': ['dw:cat'] if 'dw-after-cat' in
                       prog.get('traits', ()) else []})
        return
    # layers named in `fixed_layers` that PLiNIO nevertheless converted would show up in masks
    conv_lin = {op['name'] for op in prog['ops'] if op['op'] in ('conv', 'lin')}
    for n in conv_lin:
        if n in fixed_layers and n in masks:
            ctx.violation('excluded-layer-converted', {'sig': 'excluded-converted', 'layer': n})
        if n not in fixed_layers and n not in masks:
            ctx.violation('layer-not-converted', {'sig': 'not-converted', 'layer': n,
                                                  'kind': case['kind']})
            return
    shapes = pitgen.tensor_shapes(prog) if not prog.get('manual') else None
    if shapes is None:
        # user-placed PIT layers: shapes from the plain twin of the program
        twin = dict(prog, ops=[{k: v for k, v in op.items() if k != 'pit'} for op in prog['ops']])
        shapes = pitgen.tensor_shapes(twin)
    alive, findings, taint = pitlib.r_alive(prog, masks, fixed_layers, shapes)
    for f in prog['features']:
        ctx.cls('feat:' + f)
    ctx.cls('kind:' + case['kind'])
    for t in prog.get('traits', ()):
        ctx.cls('trait:' + t)

    # ---- (0) the masks themselves must be consistent with the dataflow -----------------------
    for f in findings:
        ctx.mon('c09.mask_consistency')
        ctx.violation('mask-consistency', dict(f, sig=f['kind'], taints=[f['kind']],
                                               traits=prog.get('traits')))
    all_taints = sorted(set().union(*taint.values())) if taint else []

    # ---- (1) static reports per converted layer ------------------------------------------------
    summ = pit.summary()
    try:
        seen.clear()
        pit.cost
    except Exception as e:
        ctx.violation('cost-crash', {'sig': type(e).__name__, 'exc': repr(e)[:200],
                                     'taints': all_taints, 'traits': prog.get('traits')})
    shown = {}
    for pid, kind, cin, cout in seen:
        shown[pid] = (float(cin), float(cout))
    consumer_src = {}
    for op in prog['ops']:
        if op['op'] in ('conv', 'lin') and not op.get('reuse'):
            consumer_src[op['name']] = op['src']
    for name, src in consumer_src.items():
        if name not in masks:
            continue
        L = layers[name]
        if taint[src]:
            ctx.count('layers_skipped_tainted_input')
            continue
        want_mask = alive[src]
        want = sum(want_mask)
        calc = L.input_features_calculator
        reports = {
            'calculator.features': float(calc.features),
            'calculator.mask_sum': float(calc.features_mask.sum()),
            'summary.in_features': float(summ[name]['in_features']),
            'layer.in_features_opt': float(L.in_features_opt),
        }
        pid = id(L._parameters)
        if pid in shown:
            reports['probe.in'] = shown[pid][0]
            ctx.mon('c09.probe')
        ctx.mon('c09.in_features')
        bad = {k: v for k, v in reports.items() if v != float(want)}
        got_mask = [int(v) for v in calc.features_mask.tolist()]
        if bad or got_mask != want_mask:
            ctx.violation('in-features', {'sig': 'in-features:' + ','.join(sorted(bad)) or 'mask',
                                          'layer': name, 'expected_alive': want,
                                          'expected_mask': want_mask, 'calculator_mask': got_mask,
                                          'reports': reports, 'src_origin':
                                          pitlib.tensor_origins(prog)[src],
                                          'features': prog['features'], 'taints': all_taints,
                                          'traits': prog.get('traits')})

    # ---- (2) dynamic cross-check: dead channels exactly zero at every converted layer ----------
    hooks = []
    call_idx = {}

    def pre_hook(name):
        def fn(mod, inp):
            x = inp[0]
            i = call_idx.get(name, 0)
            call_idx[name] = i + 1
            srcs = [op['src'] for op in prog['ops'] if op.get('name') == name]
            src = srcs[min(i, len(srcs) - 1)]
            if taint[src]:
                return
            want = alive[src]
            ctx.mon('c09.dynamic_zero')
            if x.shape[1] != len(want):
                ctx.violation('dynamic-width', {'sig': 'width', 'layer': name,
                                                'observed': int(x.shape[1]), 'static': len(want)})
                return
            dead = [j for j, v in enumerate(want) if not v]
            if dead:
                mx = x[:, dead].abs().max().item()
                if mx != 0.0:
                    ctx.violation('dynamic-dead-nonzero', {
                        'sig': 'dead-nonzero', 'layer': name, 'max_abs': mx,
                        'src_origin': pitlib.tensor_origins(prog)[src],
                        'features': prog['features'], 'taints': all_taints})
        return fn
    for name, L in layers.items():
        if name in masks:
            hooks.append(L.register_forward_pre_hook(pre_hook(name)))
    xs = pitgen.example_inputs(prog, 3, case['seed'] + 2, scale=1.5)
    try:
        with torch.no_grad():
            y_nas = pitgen.out_tensor(pit(*xs))
    except Exception as e:
        ctx.violation('pit-forward-crash', {'sig': type(e).__name__, 'exc': repr(e)[:200],
                                            'taints': all_taints, 'traits': prog.get('traits')})
        y_nas = None
    for h in hooks:
        h.remove()

    # ---- (3) export: in-widths and a forward pass on the original input shape ------------------
    try:
        exported = pit.export()
        exported.eval()
    except Exception as e:
        ctx.violation('export-crash', {'sig': type(e).__name__, 'exc': repr(e)[:300],
                                       'taints': all_taints, 'traits': prog.get('traits'),
                                       'features': prog['features']})
        return
    emods = dict(exported.named_modules())
    for name, src in consumer_src.items():
        if name not in masks or taint[src]:
            continue
        e = emods.get(name)
        if e is None:
            continue
        got = e.in_features if isinstance(e, nn.Linear) else e.in_channels
        is_dw = isinstance(e, (nn.Conv1d, nn.Conv2d)) and e.groups > 1
        want = sum(alive[src])
        ctx.mon('c09.in_features')
        if got != want:
            ctx.violation('exported-in-width', {'sig': 'exported-in', 'layer': name, 'exported': got,
                                                'expected_alive': want, 'taints': all_taints,
                                                'traits': prog.get('traits'),
                                                'features': prog['features']})
        if is_dw and e.groups != want:
            ctx.violation('exported-in-width', {'sig': 'exported-groups', 'layer': name,
                                                'groups': e.groups, 'expected_alive': want,
                                                'taints': all_taints})
    pitlib.sync_exported_bn(pit, exported)
    try:
        with torch.no_grad():
            y = pitgen.out_tensor(exported(*xs))
        ctx.mon('c09.export_forward')
        if y_nas is not None:
            ok, d = pitlib.close(y_nas, y)
            if not ok:
                ctx.violation('output-mismatch', {'sig': 'output', 'max_abs_diff': d,
                                                  'taints': all_taints,
                                                  'traits': prog.get('traits'),
                                                  'features': prog['features']})
    except Exception as e:
        ctx.violation('exported-forward-crash', {'sig': type(e).__name__, 'exc': repr(e)[:300],
                                                 'taints': all_taints,
                                                 'traits': prog.get('traits'),
                                                 'features': prog['features']})
    pruned_join = False
    for op in prog['ops']:
        if op['op'] in ('add', 'cat'):
            if any(not all(alive[s]) for s in op['srcs']):
                pruned_join = True
        if op['op'] == 'flat' and not all(alive[op['src']]):
            pruned_join = True
    if pruned_join:
        ctx.nontriv(('c09', case['kind'], case.get('prog_seed'), case.get('kinds'), case['family'],
                     case.get('consumer'), case['mask_mode'], case['seed']))
    ctx.sample({'kind': case['kind'], 'family': case['family'], 'features': prog['features'],
                'traits': prog.get('traits'), 'fixed_layers': sorted(fixed_layers),
                'alive_per_consumer': {n: alive[s] for n, s in list(consumer_src.items())[:6]},
                'mask_inconsistencies': [f['kind'] for f in findings]})
