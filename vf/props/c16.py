"""C16 - built-in cost models are finite, non-negative and monotone in layer size.

Monitor: every function registered in every specification of plinio.cost is called *directly* on
hand-built layer descriptions that satisfy its own pattern (grid sweeps along one axis at a time),
with the oracle evaluating finiteness, sign, strict positivity, monotonicity, the depthwise ==
C x generic(1,1) identity, exactness + gradient pass-through of the rounding helpers, and rejection
of unsupported precisions / layer kinds by the restricted models.
"""
import itertools
import math
import sys

import torch

ID = 'C16'
LEVEL = 'exploration'
RULE = ('cases = (cost spec, registered pattern, axis, fixed values of the other axes): axes are '
        'in-channels, out-channels (1..130), kernel size ({1,3,5,7}; hardware-restricted sets where '
        'the model restricts them), output size (1..33) and, for bit-scaled models, weight / '
        'activation bits; the quick tier strides the fixed axes (every tile boundary +-1 always '
        'included), the thorough tier uses the full grids; plus fractional (relaxed) channel '
        'counts around every tile boundary with gradients, helper exactness on all integer pairs, '
        'and rejection probes.  Non-trivial: a sweep of >= 3 points for a registered function; '
        'distinct = (spec, pattern, axis, fixed point).')
RULE += ('  Round 5: non-square kernel rejection probes for NE16.')
ASSUMPTIONS = [
    'each registered function is called directly on specs satisfying its own pattern (a 1-channel '
    'conv also matches the depthwise constraint, so lookups would mix formulas)',
    'hardware models are judged for shape (finite, sign, monotone), not against silicon',
    'NE16 / DIANA / MPIC are only driven at the precisions and kernel sizes they declare',
]
REQUIRED_MONITORS = ['c16.sweep', 'c16.helpers', 'c16.reject', 'c16.dw_identity', 'c16.fractional']
MIN_NONTRIVIAL = {'quick': 300, 'thorough': 3000}
EXHAUSTIVE = {'quick': False, 'thorough': True}
EXHAUSTIVE_NOTE = 'thorough: full grids as stated in the rule; quick: strided'

BOUNDARY = sorted(set([1, 2, 3, 4, 5, 7, 8, 9, 15, 16, 17, 31, 32, 33, 63, 64, 65, 127, 128, 129,
                       130]))
ALL_CH = list(range(1, 131))
KERNELS = [1, 3, 5, 7]
OUT_SIZES = list(range(1, 34))
BITS = [0, 2, 4, 8]


def spec_modules():
    import plinio.cost  # noqa
    names = ['params', 'params_no_bias', 'params_bit', 'ops', 'ops_no_bias', 'ops_bit',
             'gap8_latency', 'mpic_latency', 'mpic_energy', 'ne16_latency', 'diana_latency']
    return {n: getattr(sys.modules['plinio.cost'], n) for n in names}


def registered(spec):
    """[(type name, 'dw'|'gen', fn)] for every pattern the spec registers"""
    from plinio.cost.pattern import conv_dw_constraint
    out = []
    for t, entries in spec.data.items():
        for constr, fn in entries:
            kind = 'gen' if constr is None else ('dw' if constr is conv_dw_constraint else 'other')
            out.append((t.__name__, kind, fn))
    return out


BIT_SCALED = {'params_bit', 'ops_bit', 'mpic_latency', 'mpic_energy', 'ne16_latency'}
NEEDS_BITS = BIT_SCALED | {'diana_latency'}


def allowed(specname, tname, kind):
    """kernel sizes / bit values the model declares support for"""
    ks = KERNELS
    wb, ab = [8], [8]
    if specname in ('params_bit', 'ops_bit'):
        wb, ab = BITS, [2, 4, 8]
    if specname in ('mpic_latency', 'mpic_energy'):
        wb, ab = [0, 2, 4, 8], [2, 4, 8]
    if specname == 'ne16_latency':
        wb, ab = [0, 2, 4, 8], [8]
        ks = [3] if kind == 'dw' else [1, 3]
    if specname == 'diana_latency':
        wb, ab = [2, 8], [8]
    return ks, wb, ab


def mk_spec(specname, tname, kind, cin, cout, k, osz, wb=8, ab=8, bias=True, tensor_ch=False,
            grad=False):
    def T(v):
        if tensor_ch or specname in ('gap8_latency', 'diana_latency', 'ne16_latency'):
            t = torch.tensor(float(v), requires_grad=grad)
            return t
        return v
    s = {'_parameters': {'bias': (torch.zeros(1) if bias else None)}}
    if tname == 'Linear':
        s['in_features'] = T(cin)
        s['out_features'] = T(cout)
        s['output_shape'] = (1, int(cout))
    else:
        g = cin if kind == 'dw' else 1
        s['in_channels'] = T(cin)
        s['out_channels'] = T(cout if kind != 'dw' else cin)
        s['groups'] = g
        if tname == 'Conv1d':
            s['kernel_size'] = (k,)
            s['output_shape'] = (1, int(cout), osz)
        else:
            s['kernel_size'] = (k, k)
            s['output_shape'] = (1, int(cout), osz, osz)
    if specname in NEEDS_BITS:
        s['w_precision'] = torch.tensor(float(wb)) if specname != 'diana_latency' else wb
        s['in_precision'] = torch.tensor(float(ab))
        s['a_precision'] = ab
        s['w_theta_alpha'] = torch.tensor(1.0)
        s['in_format'] = int
        s['w_format'] = int
    return s


def fval(v):
    return float(v.detach()) if isinstance(v, torch.Tensor) else float(v)


def cases(tier, seed):
    cs = []
    thorough = tier == 'thorough'
    fixed_ch = ALL_CH if thorough else BOUNDARY[::3] + [130]
    fixed_os = OUT_SIZES if thorough else [1, 2, 3, 8, 9, 16, 17, 33]
    for specname in ['params', 'params_no_bias', 'params_bit', 'ops', 'ops_no_bias', 'ops_bit',
                     'gap8_latency', 'mpic_latency', 'mpic_energy', 'ne16_latency',
                     'diana_latency']:
        cs.append({'kind': 'sweeps', 'spec': specname, 'part': 'cin'})
        cs.append({'kind': 'sweeps', 'spec': specname, 'part': 'cout'})
        cs.append({'kind': 'sweeps', 'spec': specname, 'part': 'kernel'})
        cs.append({'kind': 'sweeps', 'spec': specname, 'part': 'osz'})
        if specname in BIT_SCALED:
            cs.append({'kind': 'sweeps', 'spec': specname, 'part': 'bits'})
        cs.append({'kind': 'fractional', 'spec': specname})
    for c in cs:
        c['fixed_ch'] = fixed_ch if c['spec'] != 'ne16_latency' or thorough else BOUNDARY[::4] + [130]
        c['fixed_os'] = fixed_os if c['spec'] != 'ne16_latency' or thorough else [1, 3, 4, 16]
    cs.append({'kind': 'helpers'})
    cs.append({'kind': 'reject'})
    cs.append({'kind': 'dw_identity'})
    # the repository's own tests under the in-situ "every built-in cost function call is finite and
    # non-negative" contract (real layer descriptions, relaxed counts moved by a real optimiser)
    from vf import suitewl
    cs += suitewl.cases(tier, slow_in_quick=('test_pit_search.py::TestPITSearch::test_combined_loss_regression',
                                             'test_combined_loss_layer'))
    return cs


def worker_setup(ctx):
    pass


def check_sweep(ctx, specname, tname, kind, fn, axis, values, fixed, strict_positive=True):
    """Evaluate fn along `axis` and check finite / >= 0 / monotone."""
    prev = None
    vals = []
    for v in values:
        kw = dict(fixed)
        kw[axis] = v
        if kind == 'dw':
            kw['cout'] = kw['cin']
        spec = mk_spec(specname, tname, kind, **kw)
        try:
            c = fval(fn(spec))
        except Exception as e:
            ctx.violation('cost-crash', {'sig': f'{specname}:{tname}:{kind}:{type(e).__name__}',
                                         'exc': repr(e)[:200], 'axis': axis, 'point': kw})
            return
        vals.append(c)
        if not math.isfinite(c) or c < 0:
            ctx.violation('finite-nonneg', {'sig': f'{specname}:{tname}:{kind}', 'value': c,
                                            'axis': axis, 'point': kw})
        nonempty_bits = kw.get('wb', 8) != 0
        if strict_positive and nonempty_bits and not (c > 0):
            ctx.violation('positive', {'sig': f'{specname}:{tname}:{kind}', 'value': c,
                                       'axis': axis, 'point': kw})
        if prev is not None and c < prev[1] - 1e-9 * max(1.0, abs(prev[1])):
            ctx.violation('monotone', {'sig': f'{specname}:{tname}:{kind}:{axis}',
                                       'axis': axis, 'at': v, 'value': c, 'previous_at': prev[0],
                                       'previous_value': prev[1], 'fixed': fixed})
        prev = (v, c)
    ctx.mon('c16.sweep')
    ctx.count('points', len(vals))
    if len(values) >= 3:
        ctx.nontriv((specname, tname, kind, axis, sorted(fixed.items())))
    return vals


def run_sweeps(case, ctx):
    specname = case['spec']
    spec = spec_modules()[specname]
    part = case['part']
    for tname, kind, fn in registered(spec):
        if kind == 'other':
            continue
        ks, wbs, abs_ = allowed(specname, tname, kind)
        wb_nz = [w for w in wbs if w != 0]
        for wb in (wb_nz if part != 'bits' else [None]):
            for ab in (abs_ if part != 'bits' else [None]):
                base_axes = {'cin': case['fixed_ch'], 'cout': case['fixed_ch'], 'k': ks,
                             'osz': case['fixed_os']}
                if tname == 'Linear':
                    base_axes['k'] = [1]
                    base_axes['osz'] = [1]
                if part == 'cin':
                    for cout in (base_axes['cout'][::4] if kind != 'dw' else [1]):
                        for k in base_axes['k'][:2]:
                            for osz in base_axes['osz'][:3]:
                                check_sweep(ctx, specname, tname, kind, fn, 'cin', ALL_CH,
                                            {'cout': cout, 'k': k, 'osz': osz, 'wb': wb, 'ab': ab})
                elif part == 'cout' and kind != 'dw':
                    for cin in base_axes['cin'][::4]:
                        for k in base_axes['k'][:2]:
                            for osz in base_axes['osz'][:3]:
                                check_sweep(ctx, specname, tname, kind, fn, 'cout', ALL_CH,
                                            {'cin': cin, 'k': k, 'osz': osz, 'wb': wb, 'ab': ab})
                elif part == 'kernel' and tname != 'Linear' and len(ks) > 1:
                    for cin in base_axes['cin'][::3]:
                        for cout in base_axes['cout'][::5]:
                            for osz in base_axes['osz'][:3]:
                                check_sweep(ctx, specname, tname, kind, fn, 'k', ks,
                                            {'cin': cin, 'cout': cout, 'osz': osz, 'wb': wb,
                                             'ab': ab})
                elif part == 'osz' and tname != 'Linear':
                    for cin in base_axes['cin'][::4]:
                        for cout in base_axes['cout'][::5]:
                            for k in base_axes['k'][:2]:
                                check_sweep(ctx, specname, tname, kind, fn, 'osz', OUT_SIZES,
                                            {'cin': cin, 'cout': cout, 'k': k, 'wb': wb, 'ab': ab})
        if part == 'bits':
            for cin in case['fixed_ch'][::4]:
                for cout in case['fixed_ch'][::5]:
                    for k in ks[:2] if tname != 'Linear' else [1]:
                        for ab in abs_:
                            check_sweep(ctx, specname, tname, kind, fn, 'wb', wbs,
                                        {'cin': cin, 'cout': cout, 'k': k, 'osz': 4, 'ab': ab},
                                        strict_positive=True)
                        if len(abs_) > 1:
                            for wb in wb_nz:
                                check_sweep(ctx, specname, tname, kind, fn, 'ab', abs_,
                                            {'cin': cin, 'cout': cout, 'k': k, 'osz': 4, 'wb': wb})
    ctx.cls(f'{specname}:{part}')
    ctx.sample({'spec': specname, 'axis': part,
                'patterns': [(t, k, f.__name__) for t, k, f in registered(spec)]})


def run_fractional(case, ctx):
    """Relaxed (fractional) channel counts around every tile boundary, with gradients."""
    specname = case['spec']
    spec = spec_modules()[specname]
    for tname, kind, fn in registered(spec):
        if kind == 'other':
            continue
        ks, wbs, abs_ = allowed(specname, tname, kind)
        wb = [w for w in wbs if w != 0][-1]
        k = ks[-1] if tname != 'Linear' else 1
        for axis in (('cin',) if kind == 'dw' else ('cin', 'cout')):
            prev = None
            pts = sorted(set(b + d for b in BOUNDARY for d in (-0.5, -0.25, 0.0, 0.25, 0.5)
                             if b + d >= 1.0))
            for v in pts:
                kw = {'cin': 24.0, 'cout': 40.0, 'k': k, 'osz': 5, 'wb': wb, 'ab': abs_[-1]}
                kw[axis] = v
                if kind == 'dw':
                    kw['cout'] = kw['cin']
                s = mk_spec(specname, tname, kind, tensor_ch=True, grad=True, **kw)
                try:
                    c = fn(s)
                except Exception as e:
                    ctx.violation('cost-crash', {'sig': f'frac:{specname}:{tname}:{kind}',
                                                 'exc': repr(e)[:200], 'point': kw})
                    break
                cv = fval(c)
                ctx.mon('c16.fractional')
                if not math.isfinite(cv) or cv < 0:
                    ctx.violation('finite-nonneg', {'sig': f'frac:{specname}:{tname}:{kind}',
                                                    'value': cv, 'point': kw})
                if prev is not None and cv < prev[1] - 1e-6 * max(1.0, abs(prev[1])):
                    ctx.violation('monotone', {'sig': f'frac:{specname}:{tname}:{kind}:{axis}',
                                               'at': v, 'value': cv, 'previous_at': prev[0],
                                               'previous_value': prev[1]})
                prev = (v, cv)
                if isinstance(c, torch.Tensor) and c.requires_grad:
                    key = {'cin': 'in_features' if tname == 'Linear' else 'in_channels',
                           'cout': 'out_features' if tname == 'Linear' else 'out_channels'}[axis]
                    g = torch.autograd.grad(c, s[key], allow_unused=True)[0]
                    if g is not None and not bool(torch.isfinite(g).all()):
                        ctx.violation('gradient', {'sig': f'frac:{specname}:{tname}:{kind}:{axis}',
                                                   'at': v, 'grad': str(g)})
            ctx.nontriv(('frac', specname, tname, kind, axis))
    ctx.cls(f'{specname}:fractional')


def run_helpers(case, ctx):
    ne16 = sys.modules['plinio.cost.ne16_latency']
    gap8 = sys.modules['plinio.cost.gap8_latency']
    diana = sys.modules['plinio.cost.diana_latency']
    helpers = [
        ('ne16.FloorDivideSTE', ne16.FloorDivideSTE, lambda a, b: a // b, 'floor'),
        ('ne16.DivAndCeilSTE', ne16.DivAndCeilSTE, lambda a, b: -(-a // b), 'ceil'),
        ('ne16.ModuloSTE', ne16.ModuloSTE, lambda a, b: a % b, 'mod'),
        ('gap8.FloorSTE', gap8.FloorSTE, lambda a, b: -(-a // b), 'ceil'),
        ('diana.FloorSTE', diana.FloorSTE, lambda a, b: -(-a // b), 'ceil'),
    ]
    for name, H, ref, kind in helpers:
        for a in range(1, 300):
            for b in (1, 2, 3, 4, 8, 16, 32, 128, 256, 512):
                x = torch.tensor(float(a), requires_grad=True)
                y = H.apply(x, b)
                ctx.mon('c16.helpers')
                if float(y) != float(ref(a, b)):
                    ctx.violation('helper-exact', {'sig': name, 'a': a, 'b': b, 'got': float(y),
                                                   'want': ref(a, b)})
                g = torch.autograd.grad(y, x, allow_unused=True)[0]
                if g is None or float(g) != 1.0:
                    ctx.violation('helper-gradient', {'sig': name, 'a': a, 'b': b,
                                                      'grad': None if g is None else float(g)})
        if kind in ('floor', 'ceil'):
            for b in (2, 4, 16, 32):
                prev = None
                for i in range(4, 40 * 4):
                    a = i / 4.0
                    y = float(H.apply(torch.tensor(a), b))
                    if y != math.floor(y):
                        ctx.violation('helper-integer-valued', {'sig': name, 'a': a, 'b': b,
                                                                'got': y})
                    if prev is not None and y < prev:
                        ctx.violation('helper-monotone', {'sig': name, 'a': a, 'b': b, 'got': y,
                                                          'prev': prev})
                    prev = y
        ctx.nontriv(('helper', name))
    # DIANA gate: 0 below threshold, 1 at/above, finite gradient
    for ch in (0.0, 0.25, 0.99, 1.0, 1.5, 64.0):
        x = torch.tensor(ch, requires_grad=True)
        y = diana.GateSTE.apply(x, 1.)
        ctx.mon('c16.helpers')
        if float(y) != (1.0 if ch >= 1.0 else 0.0):
            ctx.violation('helper-exact', {'sig': 'diana.GateSTE', 'a': ch, 'got': float(y)})
        g = torch.autograd.grad(y, x, allow_unused=True)[0]
        if g is not None and not math.isfinite(float(g)):
            ctx.violation('helper-gradient', {'sig': 'diana.GateSTE', 'a': ch, 'grad': float(g)})
    ctx.nontriv(('helper', 'diana.GateSTE'))
    ctx.sample({'kind': 'helpers', 'checked': [h[0] for h in helpers] + ['diana.GateSTE'],
                'integer_pairs_each': 299 * 10})


def expect_reject(ctx, label, fn, spec):
    ctx.mon('c16.reject')
    try:
        v = fn(spec)
    except (AssertionError, ValueError, KeyError, NotImplementedError) as e:
        return
    except Exception as e:
        # rejected, but with an accidental exception type: still a rejection
        ctx.count('reject_with_unexpected_exception_type')
        return
    ctx.violation('not-rejected', {'sig': label, 'value': str(v)[:80]})


def run_reject(case, ctx):
    specs = spec_modules()
    for tname, kind, fn in registered(specs['mpic_latency']) + registered(specs['mpic_energy']):
        for wb, ab in [(3, 8), (8, 3), (16, 8), (8, 16), (1, 8), (8, 0), (5, 4)]:
            s = mk_spec('mpic_latency', tname, kind, 8, 8, 3, 4, wb=wb, ab=ab)
            expect_reject(ctx, f'mpic:{tname}:{kind}:w{wb}a{ab}', fn, s)
    for tname, kind, fn in registered(specs['ne16_latency']):
        for ab in (2, 4, 16):
            s = mk_spec('ne16_latency', tname, kind, 8, 8, 3, 4, wb=8, ab=ab)
            expect_reject(ctx, f'ne16:{tname}:{kind}:a{ab}', fn, s)
        if tname == 'Conv2d':
            for k in ((5, 2, 7) if kind == 'gen' else (1, 5, 2)):
                s = mk_spec('ne16_latency', tname, kind, 8, 8, k, 4, wb=8, ab=8)
                expect_reject(ctx, f'ne16:{tname}:{kind}:k{k}', fn, s)
            # non-square kernels, also those whose entries are each supported on their own
            for kk in ((1, 3), (3, 1), (3, 5), (5, 3), (1, 5), (3, 2)):
                s = mk_spec('ne16_latency', tname, kind, 8, 8, 3, 4, wb=8, ab=8)
                s['kernel_size'] = kk
                expect_reject(ctx, f'ne16:{tname}:{kind}:k{kk[0]}x{kk[1]}', fn, s)
    for tname, kind, fn in registered(specs['diana_latency']):
        for wb, ab in [(4, 8), (8, 4), (2, 2), (0, 8), (16, 8)]:
            s = mk_spec('diana_latency', tname, kind, 8, 8, 3, 4, wb=wb, ab=ab)
            expect_reject(ctx, f'diana:{tname}:{kind}:w{wb}a{ab}', fn, s)
        if tname == 'Conv2d':
            s = mk_spec('diana_latency', tname, 'dw', 8, 8, 3, 4, wb=2, ab=8)
            expect_reject(ctx, 'diana:analog-depthwise', fn, s)
            # grouped but not depthwise layers (two groups; a depthwise layer with a channel
            # multiplier) are no more supported by the analog accelerator than depthwise ones
            for cin, cout, g in ((8, 16, 2), (8, 8, 2), (8, 16, 8), (4, 12, 4)):
                s = mk_spec('diana_latency', tname, 'gen', cin, cout, 3, 4, wb=2, ab=8)
                s['groups'] = g
                expect_reject(ctx, f'diana:analog-grouped-g{g}-{cin}to{cout}', fn, s)
    ctx.nontriv(('reject', 'mpic'))
    ctx.nontriv(('reject', 'ne16'))
    ctx.nontriv(('reject', 'diana'))
    ctx.sample({'kind': 'reject', 'probes': ['mpic w/a outside LUT', 'ne16 a != 8, k not in {1,3}',
                                             'diana (w,a) not in {(2,8),(8,8)}, analog depthwise']})


def run_dw_identity(case, ctx):
    specs = spec_modules()
    for specname in ('params', 'params_no_bias', 'ops', 'ops_no_bias', 'params_bit', 'ops_bit'):
        reg = registered(specs[specname])
        for tname in ('Conv1d', 'Conv2d'):
            gen = next(fn for t, k, fn in reg if t == tname and k == 'gen')
            dw = next(fn for t, k, fn in reg if t == tname and k == 'dw')
            for C, k, osz, bias, wb, ab in itertools.product(
                    (1, 2, 7, 32, 130), KERNELS, (1, 5, 33), (True, False), (2, 8), (4, 8)):
                sd = mk_spec(specname, tname, 'dw', C, C, k, osz, wb=wb, ab=ab, bias=bias)
                sg = mk_spec(specname, tname, 'gen', 1, 1, k, osz, wb=wb, ab=ab, bias=bias)
                ctx.mon('c16.dw_identity')
                a, b = fval(dw(sd)), C * fval(gen(sg))
                if abs(a - b) > 1e-9 * max(1.0, abs(b)):
                    ctx.violation('dw-identity', {'sig': f'{specname}:{tname}', 'C': C, 'k': k,
                                                  'osz': osz, 'bias': bias, 'dw': a,
                                                  'C_x_generic': b})
            ctx.nontriv(('dw', specname, tname))
    ctx.sample({'kind': 'dw_identity', 'specs': ['params', 'params_no_bias', 'ops', 'ops_no_bias',
                                                 'params_bit', 'ops_bit']})


def run_case(case, ctx):
    if case.get('kind') == 'repo-suite':
        from vf import suitewl
        from vf.mon import insitu
        insitu.install_costfn_value(ctx)
        suitewl.run(case, ctx, ('c16.insitu_costfn_value',))
        return
    {'sweeps': run_sweeps, 'fractional': run_fractional, 'helpers': run_helpers,
     'reject': run_reject, 'dw_identity': run_dw_identity}[case['kind']](case, ctx)
