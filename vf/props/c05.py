"""C05 - MPS cost equals the exact bit-cost of the selected precision assignment.

Monitor: reference bit-cost recomputed from summary() alone + the plain layer attributes of the
program (R-cost on the selected assignment, effective input channels propagated with R-alive for
the 0-bit option), compared with MPS.get_cost in eval / hard mode; a probing CostSpec records the
spec every layer shows to its cost function.
"""
import math
import random
import sys

import torch
import torch.nn as nn

from vf import mpslib, pitlib
from vf.gen import pitgen

ID = 'C05'
LEVEL = 'exploration'
RULE = ('cases = random G-MPS programs x (per-layer search with every ordered precision tuple '
        'from {2,4,8} | per-channel search without 0 bit | per-channel search with the 0-bit '
        '(pruning) option) x random coefficient vectors / matrices with arg-max margins x '
        'temperature in [0.05,20] x eval mode or training with hard sampling; metrics params_bit, '
        'ops_bit, mpic_latency (dictionary), ne16_latency where the layer kinds allow (8-bit '
        'activations, 3x3/1x1), plus the probing spec.  Non-trivial: a non-uniform assignment, and '
        'for the pruning class at least one pruned channel upstream of a conv or linear consumer; '
        'distinct = hash of (program, search type, tuples, coefficients).')
RULE += ('  Round 2: a convolution re-used at two resolutions (MACs summed per invocation, parameters once); non-zero padding modes.')
ASSUMPTIONS = [
    'the reference uses only summary() and the seed program (weights per channel, MACs from the '
    'observed output shapes of the plain model)',
    'float32 cost values are compared with relative slack 1e-5',
    'ne16_latency is compared with the registered NE16 function evaluated on the selected '
    'assignment (consistency; C16 judges the function)',
]
REQUIRED_MONITORS = ['c05.params_bit', 'c05.ops_bit', 'c05.probe', 'c05.mpic']
MIN_NONTRIVIAL = {'quick': 120, 'thorough': 2500}
EXHAUSTIVE = {'quick': False, 'thorough': False}

PC_TUPLES = [(2, 4, 8), (0, 2, 4, 8), (0, 4), (8, 0, 2), (0, 2, 4, 8), (4, 8), (0, 8)]


def cases(tier, seed):
    n = 360 if tier == 'quick' else 16000
    cs = []
    for i in range(n):
        mode = ['layer', 'channel', 'channel0'][i % 3]
        if mode == 'layer':
            w = list(mpslib.PRECISION_TUPLES[(i // 3) % 15])
        elif mode == 'channel':
            w = list([(2, 4, 8), (4, 8), (8, 2), (2, 8, 4)][(i // 3) % 4])
        else:
            w = list([(0, 2, 4, 8), (0, 4), (8, 0, 2), (0, 8), (4, 0, 8)][(i // 3) % 5])
        cs.append({'prog_seed': seed * 1000003 + 40000 + i, 'seed': seed * 104729 + 7 + i,
                   'mode': mode, 'w_prec': w,
                   'a_prec': list(mpslib.PRECISION_TUPLES[(i * 7) % 15]),
                   'hard_train': (i // 5) % 3 == 0, 'log_temp': (i * 0.618034) % 1.0,
                   'ne16': i % 6 == 5})
    return cs


def worker_setup(ctx):
    from vf import neutral
    neutral.enable(ctx)      # neutral prefixes after conversion in half of the cases
    pass


def make_probe(seen):
    from plinio.cost import CostSpec
    from plinio.cost.pattern import Conv2dGeneric, Conv2dDW, LinearGeneric

    def fn(kind):
        def f(spec):
            seen.append((id(spec['_parameters']), kind, {k: spec.get(k) for k in (
                'in_channels', 'out_channels', 'in_features', 'out_features')}))
            return torch.tensor(0.0)
        return f
    probe = CostSpec(shared=True, default_behavior='zero')
    probe[Conv2dGeneric] = fn('conv')
    probe[Conv2dDW] = fn('dwconv')
    probe[LinearGeneric] = fn('lin')
    return probe


def num(v):
    return float(v.detach()) if isinstance(v, torch.Tensor) else (None if v is None else float(v))


def run_case(case, ctx):
    from plinio import cost as pc
    rng = random.Random(case['prog_seed'])
    prog = mpslib.gen_mps_program(rng, small=True, max_c=5, allow_reuse=True)
    temp = 10 ** (math.log10(0.05) + case['log_temp'] * (math.log10(20) - math.log10(0.05)))
    seen = []
    specs = {'params_bit': pc.params_bit, 'ops_bit': pc.ops_bit, 'mpic_latency': pc.mpic_latency,
             'probe': make_probe(seen)}
    a_prec = case['a_prec']
    use_ne16 = case['ne16'] and all(
        (op['op'] != 'conv') or ('kshape' not in op and op['k'] in (1, 3) and
                                 (not op.get('dw') or op['k'] == 3))
        for op in prog['ops'])
    if use_ne16:
        a_prec = [8]
        specs['ne16_latency'] = pc.ne16_latency
    per_channel = case['mode'] != 'layer'
    try:
        model, mps, xs = mpslib.convert_mps(prog, case['seed'], case['w_prec'], a_prec,
                                            per_channel=per_channel, cost=specs, temperature=temp,
                                            hard=case['hard_train'])
    except Exception as e:
        ctx.skip(type(e).__name__ + ': ' + str(e)[:80])
        return
    if case['hard_train']:
        mps.train()
        # freeze BN-free program: training mode only changes the sampling path here
    else:
        mps.eval()
    arng = random.Random(case['seed'] + 3)
    assign = mpslib.assign_coefficients(mps, arng)
    from vf import neutral
    neutral.maybe_freeze(mps, case['seed'])     # a frozen parameter group changes nothing
    x = mpslib.in_range_inputs(prog, case['seed'], 2)
    with torch.no_grad():
        try:
            mps(x)
        except Exception as e:
            ctx.violation('mps-forward-crash', {'sig': type(e).__name__, 'exc': repr(e)[:300]})
            return
    summ = mps.summary()
    layers = dict(mpslib.mps_layers(mps))
    plain = mpslib.plain_layers(prog)
    shapes = pitgen.tensor_shapes(prog)
    # ---- R-alive with the 0-bit option: a channel is alive iff its selected precision != 0 ------
    masks = {}
    for name, op in plain.items():
        wp = summ[name]['w_precision']
        width = op['cout'] if op['op'] == 'conv' else op['fout']
        masks[name] = [int(p != 0) for p in wp] if isinstance(wp, list) else [1] * width
    alive, findings, taint = pitlib.r_alive(prog, masks, (), shapes, one_to_one_is_dw=True)
    tainted = any(taint[op['src']] for op in plain.values())
    for f in findings:
        # the selected assignment itself is inconsistent with the dataflow (e.g. a depthwise layer
        # pruned although its input cannot shrink): "the cost of the assignment" is not defined
        ctx.violation('mask-consistency', dict(f, sig=f['kind'], taints=[f['kind']],
                                               mode=case['mode']))
    # ---- reference costs ------------------------------------------------------------------------
    ref = {'params_bit': 0.0, 'ops_bit': 0.0, 'mpic_latency': 0.0}
    lut = sys.modules['plinio.cost.mpic_latency']._mpic_lut
    per_layer_ref = {}
    for name, op in plain.items():
        s = summ[name]
        wp = s['w_precision']
        width = op['cout'] if op['op'] == 'conv' else op['fout']
        wps = wp if isinstance(wp, list) else [wp] * width
        inp = s['in_precision']
        cin_eff = sum(alive[op['src']])
        if op['op'] == 'conv':
            kk = op['kshape'][0] * op['kshape'][1] if 'kshape' in op else op['k'] * op['k']
            w_per_ch = kk if op.get('dw') else cin_eff * kk
            # MACs are summed over every invocation of the layer (a re-used layer runs at each
            # call site's resolution); the parameters are counted once
            spatial = sum(shapes[o['out']][1] * shapes[o['out']][2] for o in prog['ops']
                          if o.get('name') == name and o['op'] == 'conv')
        else:
            w_per_ch = cin_eff
            spatial = 1
        pb = sum(p * w_per_ch for p in wps)
        ob = pb * inp * spatial
        # the MPIC model counts the OPs of plinio.cost.ops, which include one per bias element
        # (a folded BatchNorm gives the layer a bias): observed on the converted layer
        has_bias = 1 if layers[name].bias is not None else 0
        ml = sum((w_per_ch + has_bias) * spatial * lut(inp, p) for p in wps if p != 0) \
            if inp in (2, 4, 8) else None
        per_layer_ref[name] = {'params_bit': pb, 'ops_bit': ob, 'cin_eff': cin_eff,
                               'w_precisions': wps if len(set(wps)) > 1 else wps[:1],
                               'in_precision': inp}
        ref['params_bit'] += pb
        ref['ops_bit'] += ob
        if ml is not None and ref['mpic_latency'] is not None:
            ref['mpic_latency'] += ml
        else:
            ref['mpic_latency'] = None
    for f in prog['features']:
        ctx.cls('feat:' + f)
    ctx.cls('mode:' + case['mode'] + ('-hardtrain' if case['hard_train'] else '-eval'))
    got = {}
    for nm in ('params_bit', 'ops_bit', 'mpic_latency'):
        if ref[nm] is None or tainted:
            continue
        try:
            seen.clear()
            g = float(mps.get_cost(nm))
        except Exception as e:
            ctx.violation('cost-crash', {'sig': nm + ':' + type(e).__name__, 'exc': repr(e)[:300],
                                         'mode': case['mode']})
            continue
        got[nm] = g
        ctx.mon('c05.' + ('mpic' if nm == 'mpic_latency' else nm))
        if abs(g - ref[nm]) > 1e-5 * max(1.0, abs(ref[nm])):
            ctx.violation('cost-vs-assignment', {
                'sig': nm + ':' + case['mode'], 'metric': nm, 'mps_cost': g, 'exact': ref[nm],
                'mode': case['mode'], 'w_prec': case['w_prec'], 'a_prec': a_prec,
                'per_layer': per_layer_ref, 'features': prog['features']})
    # ---- probe: what every layer shows to its cost function --------------------------------------
    try:
        seen.clear()
        mps.get_cost('probe')
    except Exception as e:
        ctx.violation('cost-crash', {'sig': 'probe:' + type(e).__name__, 'exc': repr(e)[:300]})
    by_pid = {id(l._parameters): n for n, l in layers.items()}
    for pid, kind, shown in seen:
        name = by_pid.get(pid)
        if name is None or name not in plain:
            continue
        op = plain[name]
        if taint[op['src']]:
            continue
        ctx.mon('c05.probe')
        want_in = float(sum(alive[op['src']]))
        want_out = float(sum(masks[name]))
        keys = ('in_features', 'out_features') if op['op'] == 'lin' else \
            ('in_channels', 'out_channels')
        gi, go = num(shown.get(keys[0])), num(shown.get(keys[1]))
        if gi != want_in or go != want_out:
            ctx.violation('probe-spec', {'sig': f"{kind}:{'in' if gi != want_in else 'out'}",
                                         'layer': name, 'kind': kind, 'shown': {
                                             k: num(v) for k, v in shown.items()},
                                         'expected': {keys[0]: want_in, keys[1]: want_out},
                                         'mode': case['mode']})
    # ---- NE16: same function on the selected assignment (per-layer search only) -----------------
    if use_ne16 and case['mode'] == 'layer' and not tainted:
        ne16 = sys.modules['plinio.cost.ne16_latency']
        want = 0.0
        for name, op0 in plain.items():
            s = summ[name]
            for op in [o for o in prog['ops'] if o.get('name') == name and o['op'] == op0['op']]:
                if op['op'] == 'conv':
                    spec = {'in_channels': torch.tensor(float(sum(alive[op['src']]))),
                            'out_channels': torch.tensor(float(op['cout'])),
                            'kernel_size': (op['k'], op['k']),
                            'groups': op['cin'] if op.get('dw') else 1,
                            'output_shape': (1,) + tuple(shapes[op['out']])}
                    fn = ne16._ne16_latency_conv2d_dw \
                        if (op.get('dw') or op['cin'] == op['cout'] == 1) \
                        else ne16._ne16_latency_conv2d_generic
                else:
                    spec = {'in_features': torch.tensor(float(sum(alive[op['src']]))),
                            'out_features': torch.tensor(float(op['fout'])),
                            'output_shape': (1, op['fout'])}
                    fn = ne16._ne16_latency_linear
                spec.update({'w_precision': torch.tensor(float(s['w_precision'])),
                             'in_precision': torch.tensor(float(s['in_precision'])),
                             'w_theta_alpha': torch.tensor(1.0)})
                want += float(fn(spec))
        try:
            g = float(mps.get_cost('ne16_latency'))
            ctx.mon('c05.ne16')
            if abs(g - want) > 1e-5 * max(1.0, abs(want)):
                ctx.violation('cost-vs-assignment', {'sig': 'ne16:layer', 'metric': 'ne16_latency',
                                                     'mps_cost': g, 'exact': want,
                                                     'summary': {k: dict(v) for k, v in summ.items()}})
        except Exception as e:
            ctx.violation('cost-crash', {'sig': 'ne16:' + type(e).__name__, 'exc': repr(e)[:300]})
    nonuniform = len({tuple(v['w_precisions']) for v in per_layer_ref.values()}) > 1 or \
        any(len(v['w_precisions']) > 1 for v in per_layer_ref.values())
    pruned_upstream = any(not all(alive[op['src']]) for op in plain.values())
    if (case['mode'] != 'channel0' and nonuniform) or (case['mode'] == 'channel0' and pruned_upstream):
        ctx.nontriv((case['prog_seed'], case['mode'], tuple(case['w_prec']), tuple(a_prec),
                     case['seed']))
    if pruned_upstream:
        kinds = {plain[n]['op'] for n, op in plain.items() if not all(alive[op['src']])}
        for k in kinds:
            ctx.cls('pruned-producer-feeds-' + k)
    ctx.sample({'mode': case['mode'], 'w_prec': case['w_prec'], 'a_prec': a_prec,
                'features': prog['features'], 'mps_cost': got,
                'exact': {k: v for k, v in ref.items()},
                'per_layer': {k: v for k, v in list(per_layer_ref.items())[:4]}})
