"""C17 - a checkpointed search resumes to an observationally identical model.

Monitor: observation-snapshot oracle.  W trains for k steps (+ option changes), its state_dict is
saved; a fresh wrapper W' of the same seed, configured through the public API exactly as W, loads it
(strict) and both are observed (outputs in eval and train mode, every cost, summary, exported
network): the snapshots must be bit-identical.  In the crash variant the crash is real: process A
trains, torch.save()s and dies with os._exit right after writing its snapshot; process B builds W',
loads and reports; the parent compares (this also catches state kept in process-global objects).
"""
import json
import os
import random
import subprocess
import sys
import tempfile

import torch

from vf import nasfactory, snapshot

ID = 'C17'
LEVEL = 'exploration'
RULE = ('cases = G-PIT / G-MPS (per-layer, per-channel with 0 bit) / G-SN programs x checkpoints '
        'taken after k in 0..5 optimiser steps on network and architectural parameters with random '
        'data, after 0..3 option changes (temperature, hard, gumbel, disable_sampling, '
        'discrete_cost, train_rf/features, train_*_only) and in train or eval mode x fold_bn / '
        'full_cost options; in-process round trips plus real two-process crash/restart round '
        'trips (a quarter of the quick cases, all thorough cases).  Non-trivial: k >= 1 or the '
        'architectural parameters were moved away from their initial values; distinct = hash of '
        'the configuration.')
RULE += ('  Round 2: in half of the cases the architecture is logged (summary / str / get_cost / export) between the last forward and the checkpoint.')
RULE += ('  Round 4: first observation "as is" (one forward in whatever mode the model is in, right after load_state_dict); Gumbel configurations; PIT masks pruned for real in every other case.')
RULE += ('  Round 5: seeds that take the same residual sum twice.')
ASSUMPTIONS = [
    'constructor arguments and option calls are configuration and are re-applied through the '
    'public API; only what state_dict claims to carry is expected to survive',
    'both models are observed with the same snapshot call (same inputs, same RNG seed)',
]
REQUIRED_MONITORS = ['c17.load_keys', 'c17.snapshot_equal', 'c17.crash_roundtrip']
MIN_NONTRIVIAL = {'quick': 100, 'thorough': 1500}
EXHAUSTIVE = {'quick': False, 'thorough': False}
TIMEOUT = {'quick': 1500, 'thorough': 10000}


# the first observation of both models is one forward pass in whatever mode they are in (the
# restored model straight after load_state_dict, without any train()/eval() call in between)
AS_IS = ('output',)


def cases(tier, seed):
    cs = []
    n = 200 if tier == 'quick' else 2400
    kinds = ['pit', 'mps-layer', 'mps-channel', 'supernet']
    for i in range(n):
        kind = kinds[i % 4]
        cfg = {'kind': kind, 'prog_seed': seed * 1000003 + 110000 + i, 'seed': seed * 7919 + i,
               'family': '1d' if (i // 4) % 2 == 0 else '2d', 'fold': (i // 8) % 3 == 0,
               'full_cost': (i // 3) % 2 == 0, 'train': (i // 5) % 2 == 0,
               # (Gumbel noise is comparable: every observed forward is seeded)
               'gumbel': kind != 'pit' and (i // 9) % 4 == 0, 'hard': (i // 7) % 3 == 0,
               # (the constructor temperature written as a Python int in a third of the cases)
               'temperature': [1.0, 5, 2][(i // 4) % 3]}
        cs.append({'cfg': cfg, 'k': i % 6, 'n_opts': (i // 6) % 4, 'move_nas': i % 3 != 0,
                   'temp_from_ckpt': (i // 4) % 2 == 0,
                   # the architecture is logged (summary / str / export) before the checkpoint
                   'log_before_ckpt': (i // 12) % 2 == 1,
                   # the checkpoint is taken in a phase of the search in which one parameter group
                   # is frozen; the fresh wrapper is NOT put into that phase: requires_grad flags
                   # are no part of the state_dict, and none of the property's observations
                   # (outputs, costs, summary, exported network) may depend on them
                   'freeze_phase': [None, None, 'train_nas_only', None, 'train_net_only', None][(i // 7) % 6],
                   'crash': (tier == 'thorough' and i % 2 == 0) or (tier == 'quick' and i % 8 == 7),
                   'seed': seed * 104729 + i})
    return cs


def worker_setup(ctx):
    from vf import neutral
    neutral.enable(ctx)      # neutral prefixes after conversion in half of the cases
    pass


def build_and_train(case):
    """process A's job: returns (m, options) with the model trained and configured"""
    rng = random.Random(case['seed'])
    m = nasfactory.make(case['cfg'])
    nas, kind = m['nas'], m['kind']
    opts = nasfactory.random_options(rng, kind, case['n_opts'])
    if case['move_nas']:
        # (PIT: in every other case the masks are pruned for real, not only perturbed)
        nasfactory.randomize_nas_params(nas, rng, prune=kind == 'pit' and case['seed'] % 2 == 0)
    applied = []
    for o in opts[:len(opts) // 2]:
        if nasfactory.apply_option(nas, kind, o):
            applied.append(o)
    was = nas.training
    nas.train()
    nasfactory.train_steps(nas, m['xs'], case['k'], case['seed'] % (2 ** 31))
    nas.train(was)
    for o in opts[len(opts) // 2:]:
        if nasfactory.apply_option(nas, kind, o):
            applied.append(o)
    # the usual forward pass before the checkpoint
    with torch.no_grad():
        torch.manual_seed(5)
        nas(*m['xs'])
    if case.get('freeze_phase'):
        getattr(nas, case['freeze_phase'])()
    if case.get('log_before_ckpt'):
        # "at any point of a search": a training loop that prints / exports the current
        # architecture and then checkpoints
        nas.summary()
        str(nas)
        for n in m['cost_names']:
            nas.get_cost(n)
        if kind != 'mps-channel':       # README: export crashes for the per-channel scheme
            nas.export()
    return m, applied


def build_fresh(case, applied):
    """process B's job: fresh wrapper, same configuration through the public API"""
    m = nasfactory.make(case['cfg'])
    for o in applied:
        # what the state_dict itself carries is state, not configuration: the MPS softmax
        # temperature is a registered buffer of every quantizer, so in half of the MPS cases it is
        # NOT re-applied on the fresh wrapper and must come back through load_state_dict
        if o[0] == 'temperature' and m['kind'].startswith('mps') and case.get('temp_from_ckpt'):
            continue
        nasfactory.apply_option(m['nas'], m['kind'], o)
    return m


def child_main(argv):
    """python -m vf.props.c17 A|B <case.json> <workdir>"""
    from vf import bootstrap
    bootstrap.setup()
    role, case_file, wd = argv
    with open(case_file) as f:
        case = json.load(f)
    if role == 'A':
        m, applied = build_and_train(case)
        torch.save(m['nas'].state_dict(), os.path.join(wd, 'ckpt.pt'))
        snap = snapshot.observe(m['nas'], m['xs'], m['cost_names'], as_is=AS_IS)
        with open(os.path.join(wd, 'A.json'), 'w') as f:
            json.dump({'snap': snap, 'applied': applied}, f)
            f.flush()
            os.fsync(f.fileno())
        os._exit(0)       # the crash: no interpreter shutdown, no destructors
    with open(os.path.join(wd, 'A.json')) as f:
        applied = [tuple(o) for o in json.load(f)['applied']]
    m = build_fresh(case, applied)
    sd = torch.load(os.path.join(wd, 'ckpt.pt'))
    res = {'missing': [], 'unexpected': [], 'error': None}
    try:
        r = m['nas'].load_state_dict(sd, strict=True)
        res['missing'], res['unexpected'] = list(r.missing_keys), list(r.unexpected_keys)
    except Exception as e:
        res['error'] = repr(e)[:600]
    snap = snapshot.observe(m['nas'], m['xs'], m['cost_names'], as_is=AS_IS) if res['error'] is None else {}
    with open(os.path.join(wd, 'B.json'), 'w') as f:
        json.dump({'snap': snap, 'load': res}, f)
    return 0


def compare(ctx, case, snap_a, snap_b, load, how, applied):
    kind = case['cfg']['kind']
    d0 = {'kind': kind, 'k': case['k'], 'options': applied, 'how': how,
          'cfg': {k: v for k, v in case['cfg'].items() if k not in ('prog_seed', 'seed')}}
    ctx.mon('c17.load_keys')
    if load.get('error') or load.get('missing') or load.get('unexpected'):
        ctx.violation('load-state-dict', dict(d0, sig='keys:' + kind, **load))
        return
    ctx.mon('c17.snapshot_equal')
    if case.get('freeze_phase'):
        # the two wrappers differ in their requires_grad flags by construction of the case: the
        # flags themselves, and whether / how a cost is differentiable, are not compared
        def strip(sn):
            sn = {k: v for k, v in sn.items() if k != 'requires_grad'}
            if isinstance(sn.get('as_is'), dict):
                sn['as_is'] = {k: v for k, v in sn['as_is'].items()
                               if not (k.endswith('_requires_grad') or k.endswith('_grad'))}
            return sn
        snap_a, snap_b = strip(snap_a), strip(snap_b)
        ctx.cls('freeze-phase:' + case['freeze_phase'])
    df = snapshot.diff(snap_a, snap_b)
    if df:
        ctx.violation('resume-differs', dict(d0, sig=kind + ':' + ','.join(sorted(
            snapshot.summarize_diff(df))), differing=snapshot.summarize_diff(df, 6)))


def run_case(case, ctx):
    kind = case['cfg']['kind']
    ctx.cls(f"{kind}-k{case['k']}-opts{case['n_opts']}" + ('-crash' if case['crash'] else ''))
    if case.get('log_before_ckpt'):
        ctx.cls(kind + '-logged-before-checkpoint')
    if case['crash']:
        wd = tempfile.mkdtemp(prefix='c17_', dir=os.environ.get('VF_TMP', None))
        try:
            cf = os.path.join(wd, 'case.json')
            with open(cf, 'w') as f:
                json.dump(case, f)
            env = dict(os.environ)
            for role in ('A', 'B'):
                r = subprocess.run([sys.executable, '-m', 'vf.props.c17', role, cf, wd], env=env,
                                   capture_output=True, text=True, timeout=600)
                if not os.path.exists(os.path.join(wd, role + '.json')):
                    if 'could not generate' in (r.stderr or '') or role == 'A' and \
                            'Unsupported' in (r.stderr or ''):
                        ctx.skip('child ' + role + ': ' + (r.stderr or '')[-80:])
                        return
                    ctx.error('c17-child-' + role, RuntimeError((r.stderr or '')[-600:]))
                    return
            with open(os.path.join(wd, 'A.json')) as f:
                a = json.load(f)
            with open(os.path.join(wd, 'B.json')) as f:
                b = json.load(f)
            ctx.mon('c17.crash_roundtrip')
            compare(ctx, case, a['snap'], b['snap'], b['load'], 'two-process-crash', a['applied'])
        finally:
            import shutil
            shutil.rmtree(wd, ignore_errors=True)
    else:
        try:
            m, applied = build_and_train(case)
        except Exception as e:
            ctx.skip('build: ' + type(e).__name__ + ': ' + str(e)[:80])
            return
        sd = {k: v.detach().clone() for k, v in m['nas'].state_dict().items()}
        snap_a = snapshot.observe(m['nas'], m['xs'], m['cost_names'], as_is=AS_IS)
        m2 = build_fresh(case, applied)
        load = {'missing': [], 'unexpected': [], 'error': None}
        try:
            r = m2['nas'].load_state_dict(sd, strict=True)
            load['missing'], load['unexpected'] = list(r.missing_keys), list(r.unexpected_keys)
        except Exception as e:
            load['error'] = repr(e)[:600]
        snap_b = snapshot.observe(m2['nas'], m2['xs'], m2['cost_names'], as_is=AS_IS) \
            if load['error'] is None else {}
        compare(ctx, case, snap_a, snap_b, load, 'in-process', applied)
    if case['k'] >= 1 or case['move_nas']:
        ctx.nontriv(('c17', json.dumps(case['cfg'], sort_keys=True), case['k'], case['n_opts'],
                     case['move_nas'], case['crash']))
    ctx.sample({'kind': kind, 'k_steps': case['k'], 'n_option_changes': case['n_opts'],
                'crash': case['crash'], 'cfg': {k: v for k, v in case['cfg'].items()
                                                if k in ('fold', 'full_cost', 'train', 'hard')}})


if __name__ == '__main__':
    sys.exit(child_main(sys.argv[1:]))
