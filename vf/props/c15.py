"""C15 - cost-function lookup depends on the layer, not on registration order.

Monitor: reference model R-lookup (order-independent) against the real CostSpec.__getitem__ for
every registration order of every subset of {unconstrained, depthwise, 3x3, user constraint} and
every truth assignment of the constraints, both default behaviours.  The same model is attached
in situ (icontract postcondition on CostSpec.__getitem__) while the built-in specifications are
looked up by real PIT conversions.
"""
import itertools

import torch.nn as nn

ID = 'C15'
LEVEL = 'exploration'
RULE = ('exhaustive enumeration: layer type in {Conv1d, Conv2d, Linear} x every non-empty subset '
        'of the registrable patterns (Conv: unconstrained, depthwise, 3x3/3, user constraint; '
        'Linear: unconstrained, user) in every registration order x layer specs realising all truth '
        'assignments of the constraints (8 for conv, 2 for linear) x default behaviour zero/fail, '
        'plus the empty specification; each case is one lookup compared with R-lookup; plus the '
        'built-in depthwise / 3x3 constraints against their documented meaning on a grid of grouped '
        'and channel-multiplier layers. '
        'Non-trivial: at least two patterns registered for the type (order can matter); '
        'distinct = (type, ordered pattern tuple, truth assignment, default).')
RULE += ('  Round 3: every registration order again with one function object shared by two of the patterns.')
RULE += ("  Round 4b: every order again with the specification's default function object registered for one pattern.")
ASSUMPTIONS = ['a "user constraint" is an arbitrary predicate on the layer spec (here: stride == 2)']
REQUIRED_MONITORS = ['c15.lookup', 'c15.insitu_contract', 'c15.constraint_semantics']
MIN_NONTRIVIAL = {'quick': 1000, 'thorough': 1000}
EXHAUSTIVE = {'quick': True, 'thorough': True}
MAX_WORKERS = 4


def user_constraint(spec):
    s = spec['stride']
    s = s if isinstance(s, int) else s[0]
    return s == 2


def patterns_for(tname):
    from plinio.cost import pattern as P
    t = {'Conv1d': nn.Conv1d, 'Conv2d': nn.Conv2d, 'Linear': nn.Linear}[tname]
    if tname == 'Linear':
        return t, {'U': None, 'X': linear_user_constraint}
    return t, {'U': None, 'D': P.conv_dw_constraint, 'T': P.conv_3_constraint, 'X': user_constraint}


def linear_user_constraint(spec):
    return spec['in_features'] == 7


def layer_spec(tname, truth):
    """A real layer whose vars() satisfy exactly the constraints named in `truth`."""
    if tname == 'Linear':
        return vars(nn.Linear(7 if 'X' in truth else 5, 3))
    dw, three, user = 'D' in truth, 'T' in truth, 'X' in truth
    cin = cout = groups = 4 if dw else None
    if not dw:
        cin, cout, groups = 4, 6, 1
    k = 3 if three else 5
    s = 2 if user else 1
    Conv = nn.Conv1d if tname == 'Conv1d' else nn.Conv2d
    return vars(Conv(cin, cout, k, stride=s, groups=groups))


def cases(tier, seed):
    cs = []
    for tname in ('Conv1d', 'Conv2d', 'Linear'):
        keys = ['U', 'X'] if tname == 'Linear' else ['U', 'D', 'T', 'X']
        truths = [[]]
        cons = [k for k in keys if k != 'U']
        truths = [list(c) for r in range(len(cons) + 1) for c in itertools.combinations(cons, r)]
        orders = [()]
        for r in range(1, len(keys) + 1):
            for sub in itertools.combinations(keys, r):
                orders.extend(itertools.permutations(sub))
        for order in orders:
            for truth in truths:
                for default in ('zero', 'fail'):
                    cs.append({'type': tname, 'order': list(order), 'truth': truth,
                               'default': default})
            # the specification's own default function object registered explicitly for one pattern
            # ("depthwise layers are free on this target" / "explicitly unsupported")
            for k in order:
                if k == 'U' and len(order) == 1:
                    continue
                for truth in truths:
                    cs.append({'type': tname, 'order': list(order), 'truth': truth,
                               'default': 'zero' if (len(truth) + len(order)) % 2 else 'fail',
                               'use_default_for': k})
            # the same function object registered for two of the patterns (one cost model serving
            # e.g. both the depthwise and the 3x3 pattern): the patterns stay distinct
            for pair in itertools.combinations(order, 2):
                for truth in truths:
                    cs.append({'type': tname, 'order': list(order), 'truth': truth,
                               'default': 'zero' if len(truth) % 2 else 'fail',
                               'share': list(pair)})
    # the built-in constraints themselves, against their documented meaning (depthwise: in ==
    # groups == out; 3x3: every kernel dimension equals 3), on grouped / channel-multiplier layers
    cs.append({'type': 'constraint-semantics'})
    # in-situ workload: real conversions that look the built-in specs up (contract attached)
    for i in range(6 if tier == 'quick' else 40):
        cs.append({'type': 'insitu', 'i': i, 'seed': seed * 13 + i})
    # the repository's own tests under the in-situ lookup contract
    from vf import suitewl
    cs += [dict(c, type='repo-suite') for c in suitewl.cases(
        tier, slow_in_quick=('test_regularization_loss_init',))]
    return cs


class LookupContractBroken(Exception):
    pass


_ctx = {}


def r_lookup(data, default, key):
    """Order-independent reference: constrained match if exactly one constrained pattern holds;
    error iff two or more hold; else the unconstrained function if registered; else the default."""
    t, spec = key
    entries = data.get(t, [])
    constrained = [fn for c, fn in entries if c is not None and c(spec)]
    if len(constrained) >= 2:
        return 'ERROR'
    if len(constrained) == 1:
        return constrained[0]
    unconstrained = [fn for c, fn in entries if c is None]
    if unconstrained:
        # several unconstrained registrations for one type are outside the property
        return unconstrained[0] if len(unconstrained) == 1 else 'AMBIGUOUS'
    return default


def worker_setup(ctx):
    """icontract postcondition on the real CostSpec.__getitem__ (in situ)."""
    import icontract
    from plinio.cost import cost_spec as cs_mod
    _ctx['ctx'] = ctx

    def result_matches_reference(self, key, result):
        ctx.mon('c15.insitu_contract')
        want = r_lookup(self.data, self.default, key)
        if want in ('ERROR', 'AMBIGUOUS'):
            # the call returned although the reference demands an error
            if want == 'ERROR':
                ctx.violation('insitu-lookup', {'sig': 'returned-despite-conflict',
                                                'type': str(key[0])})
            return True
        if result is not want:
            ctx.violation('insitu-lookup', {'sig': 'wrong-function', 'type': str(key[0]),
                                            'got': getattr(result, '__name__', str(result)),
                                            'want': getattr(want, '__name__', str(want))})
        return True
    cs_mod.CostSpec.__getitem__ = icontract.ensure(
        result_matches_reference, error=LookupContractBroken)(cs_mod.CostSpec.__getitem__)


def run_constraint_semantics(ctx):
    from plinio.cost import CostSpec
    from plinio.cost import pattern as P
    n = 0
    for Conv, tname in ((nn.Conv1d, 'Conv1d'), (nn.Conv2d, 'Conv2d')):
        for cin, cout, groups in [(4, 4, 4), (4, 8, 4), (4, 12, 4), (4, 4, 2), (4, 4, 1), (4, 8, 2),
                                  (1, 1, 1), (1, 3, 1), (6, 6, 3), (6, 6, 6), (8, 4, 4), (2, 2, 1)]:
            for k in (1, 2, 3, 5, (3, 1) if Conv is nn.Conv2d else 3):
                try:
                    layer = Conv(cin, cout, k, groups=groups)
                except ValueError:
                    continue
                spec = vars(layer)
                want_dw = (cin == groups and cout == groups)
                want_3 = all(kk == 3 for kk in layer.kernel_size)
                ctx.mon('c15.constraint_semantics')
                n += 1
                got_dw, got_3 = bool(P.conv_dw_constraint(spec)), bool(P.conv_3_constraint(spec))
                d = {'type': tname, 'in': cin, 'out': cout, 'groups': groups,
                     'kernel': list(layer.kernel_size)}
                if got_dw != want_dw:
                    ctx.violation('constraint-semantics', dict(d, sig='depthwise', got=got_dw,
                                                               documented=want_dw))
                if got_3 != want_3:
                    ctx.violation('constraint-semantics', dict(d, sig='3x3', got=got_3,
                                                               documented=want_3))
                # and the lookup in a specification with [unconstrained, depthwise] registered
                cspec = CostSpec(shared=True, default_behavior='zero')
                f_u, f_d = (lambda s_: 'U'), (lambda s_: 'D')
                t = nn.Conv1d if Conv is nn.Conv1d else nn.Conv2d
                cspec[(t, P.conv_dw_constraint)] = f_d
                cspec[(t, None)] = f_u
                got = cspec[(t, spec)]
                if got is not (f_d if want_dw else f_u):
                    ctx.violation('lookup', dict(d, sig='grouped-layer-lookup',
                                                 got='depthwise fn' if got is f_d else 'other',
                                                 want='depthwise fn' if want_dw else
                                                 'unconstrained fn'))
    ctx.nontriv(('constraint-semantics', n))
    ctx.nontriv(('constraint-semantics', 'lookups'))
    ctx.sample({'kind': 'constraint-semantics', 'layers_checked': n})


def run_case(case, ctx):
    if case.get('type') == 'repo-suite':
        from vf import suitewl
        suitewl.run(case, ctx, ('c15.insitu_contract',))
        return
    from plinio.cost import CostSpec
    if case['type'] == 'constraint-semantics':
        return run_constraint_semantics(ctx)
    if case['type'] == 'insitu':
        import random
        from vf import pitlib
        from vf.gen import pitgen
        from plinio import cost as pc
        rng = random.Random(case['seed'])
        prog = pitgen.gen_valid_program(rng, family='2d' if case['i'] % 2 else '1d',
                                        opts={'p_fixed_stem': 0.5, 'allow_fixed': True})
        specs = {n: getattr(pc, n) for n in ('params', 'params_no_bias', 'ops', 'ops_no_bias')}
        if prog['family'] == '2d':
            specs['gap8_latency'] = pc.gap8_latency
        try:
            model, pit, xs = pitlib.convert_pit(prog, case['seed'], cost=specs, full_cost=True)
            for n in specs:
                pit.get_cost(n)
        except KeyError as e:
            # a conflict raised during a real conversion: is it legitimate under R-lookup?
            ctx.violation('insitu-lookup', {'sig': 'conversion-raised', 'exc': repr(e)[:200],
                                            'features': prog['features']})
        ctx.cls('insitu')
        return
    t, pats = patterns_for(case['type'])
    spec = CostSpec(shared=True, default_behavior=case['default'])
    fns = {}
    for k in case['order']:
        share = case.get('share') or []
        if case.get('use_default_for') == k:
            fn = spec.default
        elif k in share and any(o in fns for o in share):
            fn = next(fns[o] for o in share if o in fns)
        else:
            fn = (lambda name: (lambda s: name))(k)
            fn.__name__ = 'cost_fn_' + k
        fns[k] = fn
        spec[(t, pats[k])] = fn
    lspec = layer_spec(case['type'], case['truth'])
    # sanity of the workload itself: the layer realises exactly the requested truth assignment
    for k, c in pats.items():
        if c is not None:
            assert bool(c(lspec)) == (k in case['truth']), (case, k)
    matching = [k for k in case['order'] if k != 'U' and k in case['truth']]
    if len(matching) >= 2:
        want = 'ERROR'
    elif len(matching) == 1:
        want = fns[matching[0]]
    elif 'U' in case['order']:
        want = fns['U']
    else:
        want = spec.default
    ctx.mon('c15.lookup')
    try:
        got = spec[(t, lspec)]
        err = None
    except KeyError as e:
        got, err = 'ERROR', e
    except LookupContractBroken:
        raise
    except Exception as e:
        # neither an answer nor the documented conflict error: the lookup itself broke
        ctx.violation('lookup', {
            'sig': 'lookup-crash:' + type(e).__name__, 'type': case['type'],
            'registration_order': case['order'], 'constraints_satisfied': case['truth'],
            'default': case['default'], 'exc': repr(e)[:200]})
        return
    ok = (got == 'ERROR') if want == 'ERROR' else (got is want)
    if not ok:
        ctx.violation('lookup', {
            'sig': 'raised-without-conflict' if got == 'ERROR' else (
                'no-error-on-conflict' if want == 'ERROR' else 'wrong-function'),
            'type': case['type'], 'registration_order': case['order'],
            'constraints_satisfied': case['truth'], 'default': case['default'],
            'same_function_for': case.get('share'),
            'default_function_registered_for': case.get('use_default_for'),
            'got': 'KeyError: ' + str(err) if got == 'ERROR' else getattr(got, '__name__', str(got)),
            'want': want if want == 'ERROR' else getattr(want, '__name__', str(want))})
    # the default function must behave as declared
    if want is spec.default and got is spec.default:
        try:
            v = got(lspec)
            if case['default'] != 'zero' or float(v) != 0.0:
                ctx.violation('lookup', {'sig': 'default-behaviour', 'default': case['default'],
                                         'value': str(v)})
        except KeyError:
            if case['default'] != 'fail':
                ctx.violation('lookup', {'sig': 'default-behaviour', 'default': case['default'],
                                         'value': 'raised'})
    ctx.cls(f"{case['type']}-n{len(case['order'])}" + ('-shared-function' if case.get('share') else '')
            + ('-default-function-registered' if case.get('use_default_for') else ''))
    if len(case['order']) >= 2:
        ctx.nontriv((case['type'], tuple(case['order']), tuple(case['truth']), case['default'],
                     tuple(case.get('share') or ()), case.get('use_default_for')))
    if len(case['order']) == 3 and case['truth']:
        ctx.sample({'type': case['type'], 'registration_order': case['order'],
                    'constraints_satisfied_by_layer': case['truth'], 'default': case['default'],
                    'result': 'KeyError' if got == 'ERROR' else getattr(got, '__name__', str(got))})
