"""C06 - SuperNet cost is the coefficient-weighted mix of branch costs.

Monitor: reference model.  R-cost of every branch is recomputed from the plain conv/linear
attributes and the output shapes observed (forward hooks) at every call site of the seed network;
the SuperNet cost must equal sum_blocks sum_i theta_i * R-cost(branch_i) (+ fixed layers with
full_cost), lie between the cheapest and the most expensive pure selection, and under hard selection
equal R-cost of the exported network.
"""
import itertools
import math
import random

import torch
import torch.nn as nn

from vf import snlib, pitlib

ID = 'C06'
LEVEL = 'exploration'
RULE = ('cases = random G-SN networks (C03 grammar, blocks invoked once or twice) x metric in '
        '{params, params_no_bias, ops, ops_no_bias} (single or dictionary) x full_cost on/off x '
        'selection mode in {soft, hard, gumbel-soft(train), gumbel-hard(train)} x temperature '
        'log-uniform in [0.05,20] x random coefficients (any values) / coefficients with a winner '
        'margin.  Non-trivial: a block with >= 2 branches of different cost and non-uniform '
        'coefficients; distinct = hash of (network, coefficients, mode, metric, full_cost).')
RULE += ('  Round 3: a quarter of the cases wrap a seed network that had already been wrapped (and costed) with an input of another resolution.')
RULE += ('  Round 4b/5: fixed layers invoked twice; coefficients tied at the maximum (uniform initial values, two leaders) in a fifth of the cases.')
ASSUMPTIONS = [
    'theta is read from the combiner after the forward pass (the currently sampled coefficients)',
    'float32 cost values are compared with relative slack 1e-5',
    'per-invocation metrics (ops*) count every call site of a block with the output shape '
    'observed at that call site',
]
REQUIRED_MONITORS = ['c06.mix', 'c06.bounds', 'c06.hard_vs_export']
MIN_NONTRIVIAL = {'quick': 150, 'thorough': 2500}
EXHAUSTIVE = {'quick': False, 'thorough': False}

METRICS = ['params', 'params_no_bias', 'ops', 'ops_no_bias']


def cases(tier, seed):
    cs = []
    n = 400 if tier == 'quick' else 16000
    for i in range(n):
        cs.append({'net_seed': seed * 1000003 + 2000 + i // 4, 'seed': seed * 7919 + i,
                   'mode': ['soft', 'hard', 'gumbel-soft', 'gumbel-hard'][i % 4],
                   'metric': ['dict', 'params', 'ops', 'dict', 'ops_no_bias', 'params_no_bias'][(i // 4) % 6],
                   'full_cost': (i // 3) % 2 == 1, 'log_temp': (i * 0.618034) % 1.0})
    return cs


def worker_setup(ctx):
    from vf import neutral
    neutral.enable(ctx)      # neutral prefixes after conversion in half of the cases
    pass


def run_case(case, ctx):
    from plinio import cost as pc
    rng = random.Random(case['net_seed'])
    desc = snlib.gen_sn_desc(rng, max_branches=4)
    mode = case['mode']
    desc['gumbel'] = mode.startswith('gumbel')
    desc['hard'] = mode.endswith('hard') and mode != 'hard' or mode == 'hard'
    blocks = snlib.sn_blocks(desc)
    names = METRICS if case['metric'] == 'dict' else [case['metric']]
    spec = {n: getattr(pc, n) for n in names} if case['metric'] == 'dict' else \
        getattr(pc, case['metric'])
    try:
        if (case['seed'] // 5) % 4 == 3:
            # the same seed network had already been wrapped (and its cost queried) with an input
            # of another resolution: nothing of that may survive in the second wrapper
            from plinio.methods import SuperNet
            model = snlib.build_sn(desc, case['seed'])
            c0, H, W = desc['input']
            first = SuperNet(model, cost=spec, input_example=torch.randn(1, c0, H + 3, W + 2),
                             full_cost=case['full_cost'])
            for n in names:
                first.get_cost(n) if case['metric'] == 'dict' else first.cost
            sn = SuperNet(model, cost=spec, input_example=snlib.sn_input(desc, case['seed'], 1),
                          full_cost=case['full_cost'])
            ctx.cls('rewrapped-at-other-resolution')
        else:
            model, sn = snlib.convert_sn(desc, case['seed'], cost=spec,
                                         full_cost=case['full_cost'])
    except Exception as e:
        ctx.skip(type(e).__name__ + ': ' + str(e)[:80])
        return
    temp = 10 ** (math.log10(0.05) + case['log_temp'] * (math.log10(20) - math.log10(0.05)))
    sn.update_softmax_options(temperature=temp)
    crng = random.Random(case['seed'])
    cmb = dict(snlib.combiners(sn))
    if (case['seed'] // 7) % 5 == 4:
        # "any coefficient values": exact ties at the maximum - the uniform initial coefficients
        # (an untrained / warming-up SuperNet) or two unseparated leaders
        alphas = {}
        for st in blocks:
            c = cmb[st['name'] + '.sn_combiner']
            n = c.alpha.numel()
            if crng.random() < 0.5:
                vals = [1.0 / n] * n
            else:
                vals = [crng.uniform(-1.0, 0.5) for _ in range(n)]
                for i in crng.sample(range(n), min(n, 2)):
                    vals[i] = 0.75
            with torch.no_grad():
                c.alpha.data.copy_(torch.tensor(vals))
            alphas[st['name']] = vals
        ctx.cls('coefficients-tied-at-the-maximum')
    elif mode in ('hard',) or crng.random() < 0.5:
        winners = [crng.randrange(len(st['branches'])) for st in blocks]
        alphas = snlib.set_winners(sn, desc, winners, crng)
    else:
        alphas = {}
        for st in blocks:
            c = cmb[st['name'] + '.sn_combiner']
            vals = [crng.uniform(-3, 3) for _ in range(c.alpha.numel())]
            with torch.no_grad():
                c.alpha.data.copy_(torch.tensor(vals))
            alphas[st['name']] = vals
    if mode.startswith('gumbel'):
        sn.train()
    else:
        sn.eval()
    x = snlib.sn_input(desc, case['seed'], 2)
    # ---- R-cost per branch and call site, from the seed network (observed *before* the measured
    # forward: every forward re-samples the coefficients) ------------------------------------------
    sn_mode = sn.training
    sn.eval()
    calls = snlib.conv_linear_calls(sn.seed, x)
    sn.train(sn_mode)
    torch.manual_seed(case['seed'])
    with torch.no_grad():
        sn(x)
    theta = {st['name']: cmb[st['name'] + '.sn_combiner'].theta_alpha.detach().double().tolist()
             for st in blocks}

    def block_of(name):
        for st in blocks:
            if name.startswith(st['name'] + '.sn_branches.'):
                i = int(name[len(st['name']) + len('.sn_branches.'):].split('.')[0])
                return st['name'], i
        return None, None

    first_shape = {}
    for name, m, shp in calls:
        first_shape.setdefault(name, shp)

    def ref_cost(metric, weights, first_callsite_shape=False):
        """weights: block -> list of branch weights.  first_callsite_shape=True is NOT the
        reference: it is the model of known finding supernet-block-twice-different-resolution
        (every call site charged with the output shape of the first one), used only to identify
        that mechanism in a witness."""
        per_call = metric.startswith('ops')
        tot = 0.0
        seen = set()
        for name, m, shp in calls:
            if not per_call:
                if name in seen:
                    continue
                seen.add(name)
            blk, i = block_of(name)
            if first_callsite_shape and blk is not None:
                shp = first_shape[name]
            c = pitlib.layer_cost(metric, m, shp)
            if blk is None:
                if case['full_cost']:
                    tot += c
            else:
                tot += weights[blk][i] * c
        return tot

    for b in blocks:
        ctx.cls('twice:' + str(b.get('twice')))
    ctx.cls(f"mode:{mode}-full{int(case['full_cost'])}")
    got_all = {}
    for metric in names:
        try:
            got = float(sn.get_cost(metric) if isinstance(spec, dict) else sn.cost)
        except Exception as e:
            ctx.violation('cost-crash', {'sig': metric + ':' + type(e).__name__,
                                         'exc': repr(e)[:300]})
            continue
        want = ref_cost(metric, theta)
        got_all[metric] = (got, want)
        twice = [st.get('twice') for st in blocks]
        ctx.mon('c06.mix')
        detail = {'metric': metric, 'supernet_cost': got, 'reference_mix': want, 'mode': mode,
                  'full_cost': case['full_cost'], 'theta': theta, 'twice': twice,
                  'per_invocation': metric.startswith('ops'),
                  'diff_resolution_block': any(t == 'diff' for t in twice)}
        alt = ref_cost(metric, theta, first_callsite_shape=True)
        detail['matches_first_callsite_shape_model'] = \
            abs(got - alt) <= 1e-5 * max(1.0, abs(alt)) and abs(alt - want) > 1e-5 * max(1.0, abs(want))
        if abs(got - want) > 1e-5 * max(1.0, abs(want)) or not math.isfinite(got):
            ctx.violation('mix', dict(detail, sig=metric + ':' + ('diffres' if detail[
                'diff_resolution_block'] and detail['per_invocation'] else 'plain')))
        # bounds over pure selections
        sizes = [len(st['branches']) for st in blocks]
        pure = []
        for combo in itertools.product(*[range(s) for s in sizes]):
            w = {st['name']: [1.0 if i == c else 0.0 for i in range(len(st['branches']))]
                 for st, c in zip(blocks, combo)}
            pure.append(ref_cost(metric, w))
        ctx.mon('c06.bounds')
        lo, hi = min(pure), max(pure)
        if got < lo - 1e-5 * max(1.0, abs(lo)) or got > hi + 1e-5 * max(1.0, abs(hi)):
            ctx.violation('bounds', dict(detail, sig=metric + ':' + ('diffres' if detail[
                'diff_resolution_block'] and detail['per_invocation'] else 'plain'),
                min_selection=lo, max_selection=hi))
    # ---- hard selection: cost == R-cost(export) -------------------------------------------------
    if mode == 'hard':
        sn.eval()
        with torch.no_grad():
            sn(x)
        try:
            exported = sn.export()
            exported.eval()
        except Exception as e:
            ctx.violation('export-crash', {'sig': type(e).__name__, 'exc': repr(e)[:300]})
            exported = None
        if exported is not None:
            for metric in names:
                got = float(sn.get_cost(metric) if isinstance(spec, dict) else sn.cost)
                only = None
                if not case['full_cost']:
                    only = {n for n, _ in exported.named_modules() if 'sn_branches' in n}
                want = float(pitlib.net_cost(metric, exported, [x], only_names=only)[0])
                ctx.mon('c06.hard_vs_export')
                twice = [st.get('twice') for st in blocks]
                if abs(got - want) > 1e-5 * max(1.0, abs(want)):
                    dr = any(t == 'diff' for t in twice) and metric.startswith('ops')
                    alt = ref_cost(metric, theta, first_callsite_shape=True)
                    ctx.violation('hard-vs-export', {
                        'sig': metric + ':' + ('diffres' if dr else 'plain'), 'metric': metric,
                        'supernet_cost': got, 'exported_cost': want, 'full_cost': case['full_cost'],
                        'twice': twice, 'per_invocation': metric.startswith('ops'),
                        'diff_resolution_block': any(t == 'diff' for t in twice),
                        'matches_first_callsite_shape_model':
                        abs(got - alt) <= 1e-5 * max(1.0, abs(alt))})
    nonuni = any(len(set(round(v, 6) for v in th)) > 1 for th in theta.values())
    if nonuni:
        ctx.nontriv((case['net_seed'], case['seed'], mode, case['metric'], case['full_cost']))
    ctx.sample({'blocks': [{'name': st['name'], 'branches': [b['kind'] for b in st['branches']],
                            'twice': st.get('twice')} for st in blocks], 'mode': mode,
                'temperature': round(temp, 4), 'theta': theta, 'full_cost': case['full_cost'],
                'cost_supernet_vs_reference': got_all})
