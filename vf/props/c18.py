"""C18 - export, summary and cost are observers: they do not change the model.

Monitor: twin models.  M and its twin T are built from the same configuration (bit-identical); M
executes a whole sequence over {export, export(add_bn=False), summary, cost, get_cost(name), switch
the cost specification (and back), forward}, T executes only its forward elements.  Afterwards the
observation snapshots must be bit-identical (outputs, costs, summary, state_dict hashes, training
flag of every sub-module, requires_grad), every pair of exports taken along the sequence must be
identical networks, and after 3 further optimiser steps on both the state_dicts must still agree.
"""
import itertools
import random

import torch

from vf import nasfactory, snapshot

ID = 'C18'
LEVEL = 'exploration'
RULE = ('histories = ALL sequences of length <= 3 and sampled ones of length 4..5 over the '
        'alphabet {export, export(add_bn=False) [PIT], summary, cost(get_cost of the default '
        'name), get_cost(name), set cost_specification to another spec and back, forward} on PIT / '
        'MPS per-layer / MPS per-channel / SuperNet models, handed over in train and in eval '
        'mode, full_cost on/off, Gumbel sampling in a quarter of the MPS / SuperNet configurations.  One case = (model configuration, batch of '
        'sequences); twins are rebuilt per sequence.  Non-trivial: the sequence contains at least '
        'one observer call on a model whose architectural parameters were moved; distinct = '
        '(configuration, sequence).')
RULE += ('  Round 2: MPS models with one convolution excluded from the search and plain params/ops metrics (constant cost of a non-NAS layer under full_cost).')
RULE += ('  Round 4: warm-up forward in grad mode; first observation "as is": cost of the stored sample, its differentiability and its gradient w.r.t. the architectural parameters; PIT masks pruned for real in every other case.')
RULE += ("  Round 5: 'mode_eval' (eval() without a forward) in the alphabet, executed by both twins.")
ASSUMPTIONS = [
    'a forward in train mode legitimately moves BatchNorm statistics: the twin executes the same '
    'forwards',
    'with Gumbel noise every forward of the history and of the observation is seeded on both twins; '
    'the observers themselves must leave the stored sample alone (checked by the as-is observation)',
    'as-is observation is one-sided: losing the differentiability / gradient of the cost is a '
    'violation, gaining a graph the twin does not have is not',
    'adding a non-persistent attribute to a fixed layer\'s __dict__ is not by itself a violation, '
    'only its observable consequences are',
]
REQUIRED_MONITORS = ['c18.twin_snapshot', 'c18.exports_identical', 'c18.search_continues',
                     'c18.spec_switch_back']
MIN_NONTRIVIAL = {'quick': 400, 'thorough': 5000}
EXHAUSTIVE = {'quick': False, 'thorough': False}
EXHAUSTIVE_NOTE = 'all sequences of length <= 3 (quick: <= 2 + sampled 3) per model kind and mode'
TIMEOUT = {'quick': 1500, 'thorough': 10000}

# 'mode_eval' / 'forward' are not observers: the twin executes them, too
ALPHABET = ['export', 'export_nobn', 'summary', 'cost', 'get_cost', 'switch_spec', 'forward',
            'mode_eval']


def sequences(kind, max_len):
    alpha = [a for a in ALPHABET if not (a == 'export_nobn' and kind != 'pit')]
    if kind == 'mps-channel':
        # the README documents that export() crashes for the per-channel scheme: not driven
        alpha = [a for a in alpha if a != 'export']
    out = []
    for n in range(1, max_len + 1):
        out.extend(list(s) for s in itertools.product(alpha, repeat=n))
    return out, alpha


def cases(tier, seed):
    cs = []
    kinds = ['pit', 'mps-layer', 'mps-channel', 'supernet']
    ci = 0
    for kind in kinds:
        full_len = 2 if tier == 'quick' else 3
        seqs, alpha = sequences(kind, full_len)
        rng = random.Random(seed * 31 + len(kind))
        extra = []
        n_extra = 60 if tier == 'quick' else 500
        for _ in range(n_extra):
            n = rng.choice([3] if tier == 'quick' else [4, 5]) if rng.random() < 0.5 else \
                rng.choice([4, 5])
            extra.append([rng.choice(alpha) for _ in range(n)])
        allseq = seqs + extra
        for train in (True, False):
            chunk = 8
            for i in range(0, len(allseq), chunk):
                cfg = {'kind': kind, 'prog_seed': seed * 1000003 + 120000 + ci,
                       'seed': seed * 7919 + ci, 'family': '1d' if ci % 2 == 0 else '2d',
                       'fold': ci % 5 == 0, 'full_cost': ci % 2 == 1, 'train': train,
                       # Gumbel noise: every forward of the history / of the observation is seeded,
                       # the observers themselves must not disturb the stored sample
                       'gumbel': kind != 'pit' and (ci // 3) % 4 == 3, 'hard': ci % 3 == 0,
                       # MPS: one convolution excluded from the search, plain params/ops metrics
                       'mps_exclude': kind.startswith('mps') and (ci // 2) % 2 == 1}
                cs.append({'cfg': cfg, 'seqs': allseq[i:i + chunk], 'seed': seed * 104729 + ci})
                ci += 1
    # the repository's own tests under the in-situ observer contract (state_dict / mode flags /
    # requires_grad unchanged by every export / summary / get_cost call they make)
    from vf import suitewl
    cs += suitewl.cases(tier, select=('test_methods/',),
                        slow_in_quick=('test_pit_search.py::TestPITSearch::test_combined_loss_const_labels',
                                       'test_combined_loss_channel'))
    return cs


def worker_setup(ctx):
    from vf import neutral
    neutral.enable(ctx)      # neutral prefixes after conversion in half of the cases
    from vf.mon import insitu
    insitu.install_observers(ctx)    # in situ: every outermost export / summary / get_cost call


def do_op(m, op, record):
    nas = m['nas']
    if op == 'export':
        record['exports'].append(snapshot.export_snapshot(nas.export()))
    elif op == 'export_nobn':
        record['exports_nobn'].append(snapshot.export_snapshot(nas.export(add_bn=False)))
    elif op == 'summary':
        nas.summary()
    elif op == 'cost':
        float(nas.get_cost(m['cost_names'][0]))
    elif op == 'get_cost':
        float(nas.get_cost(m['cost_names'][-1]))
    elif op == 'switch_spec':
        before = {n: float(nas.get_cost(n)) for n in m['cost_names']}
        nas.cost_specification = m['alt_specs']
        for n in m['cost_names']:
            float(nas.get_cost(n))
        nas.cost_specification = m['specs']
        after = {n: float(nas.get_cost(n)) for n in m['cost_names']}
        record['switch'].append((before, after))
    elif op == 'forward':
        torch.manual_seed(77)
        with torch.no_grad():
            nas(*m['xs'])
    elif op == 'mode_eval':
        # end of an epoch: the model is switched to eval (no forward yet) before cost is logged
        # and the architecture exported
        nas.eval()


def run_case(case, ctx):
    if case.get('kind') == 'repo-suite':
        from vf import suitewl
        suitewl.run(case, ctx, ('c18.insitu_observer',))
        return
    kind = case['cfg']['kind']
    for seq in case['seqs']:
        try:
            M = nasfactory.make(case['cfg'])
            T = nasfactory.make(case['cfg'])
        except Exception as e:
            ctx.skip('build: ' + type(e).__name__ + ': ' + str(e)[:80])
            return
        rng = random.Random(case['seed'])
        # a phase of the search in which one parameter group is frozen (both twins alike): the
        # observers must leave requires_grad alone
        freeze = [None, 'train_nas_only', None, 'train_net_only'][(case['seed'] // 3) % 4]
        if freeze:
            for m in (M, T):
                getattr(m['nas'], freeze)()
            ctx.cls('frozen-group:' + freeze)
        prune = kind == 'pit' and case['seed'] % 2 == 0     # PIT: masks pruned for real
        nasfactory.randomize_nas_params(M['nas'], random.Random(case['seed']), prune=prune)
        nasfactory.randomize_nas_params(T['nas'], random.Random(case['seed']), prune=prune)
        # mixed training flags (e.g. BatchNorm statistics frozen during a train-mode search):
        # observers must preserve the flag of every sub-module, not only the global mode
        if case['cfg']['train'] and case['seed'] % 2 == 0:
            for m in (M, T):
                frng = random.Random(case['seed'] + 99)
                for n_, sub in m['nas'].named_modules():
                    if n_ and (isinstance(sub, (torch.nn.BatchNorm1d, torch.nn.BatchNorm2d,
                                                 torch.nn.Dropout)) or frng.random() < 0.15):
                        sub.training = False
        d0 = {'kind': kind, 'sequence': seq, 'train': case['cfg']['train'],
              'full_cost': case['cfg']['full_cost'], 'fold': case['cfg'].get('fold')}
        pre = snapshot.diff(snapshot.observe(M['nas'], M['xs'], M['cost_names'], with_export=False,
                                             with_outputs=False),
                            snapshot.observe(T['nas'], T['xs'], T['cost_names'], with_export=False,
                                             with_outputs=False))
        if pre:
            ctx.error('twins-differ-before-history', RuntimeError(str(pre[:5])))
            return
        # same warm-up forward on both, in grad mode: the coefficients it samples carry the autograd
        # graph a search step differentiates the cost through
        for m in (M, T):
            torch.manual_seed(5)
            m['nas'](*m['xs'])
        rec = {'exports': [], 'exports_nobn': [], 'switch': []}
        crashed = False
        for op in seq:
            try:
                do_op(M, op, rec)
            except Exception as e:
                ctx.violation('observer-crash', dict(d0, sig=op + ':' + type(e).__name__ + ':' + kind,
                                                     exc=repr(e)[:300]))
                crashed = True
                break
            if op in ('forward', 'mode_eval'):
                do_op(T, op, {'exports': [], 'exports_nobn': [], 'switch': []})
        if crashed:
            continue
        # ---- twin snapshots ------------------------------------------------------------------------
        # (first "as is": the cost of the stored sample, whether it is still differentiable and its
        # gradient w.r.t. the architectural parameters - what a search step that calls
        # loss.backward() right after the observer calls would use)
        sm = snapshot.observe(M['nas'], M['xs'], M['cost_names'], with_export=False,
                              as_is=('cost',))
        st = snapshot.observe(T['nas'], T['xs'], T['cost_names'], with_export=False,
                              as_is=('cost',))
        ctx.mon('c18.twin_snapshot')
        df = snapshot.as_is_loss(sm, st)
        sm.pop('as_is', None)
        st.pop('as_is', None)
        df += snapshot.diff(sm, st)
        if df:
            groups = snapshot.summarize_diff(df, 5)
            ctx.violation('model-changed', dict(
                d0, sig=kind + ':' + ','.join(sorted(groups)), differing=groups,
                sequence_contains_export=any(o.startswith('export') for o in seq),
                training_flags_differ='training_flags' in groups))
        # ---- repeated exports are identical networks ------------------------------------------------
        for key in ('exports', 'exports_nobn'):
            ex = rec[key]
            if len(ex) >= 2:
                ctx.mon('c18.exports_identical')
                for i in range(1, len(ex)):
                    fwd_between = 'forward' in seq
                    dd = snapshot.diff(ex[0], ex[i])
                    # a train-mode forward between two exports may legitimately move BN statistics
                    if dd and not (fwd_between and case['cfg']['train'] and
                                   all(k.startswith('state_dict') for k in dd)):
                        ctx.violation('exports-differ', dict(d0, sig=kind + ':' + key,
                                                             differing=dd[:6]))
                        break
        for before, after in rec['switch']:
            ctx.mon('c18.spec_switch_back')
            if before != after:
                ctx.violation('spec-switch', dict(d0, sig=kind, before=before, after=after))
        # ---- the search continues as if nothing had been called --------------------------------------
        try:
            for m in (M, T):
                m['nas'].train()
                nasfactory.train_steps(m['nas'], m['xs'], 3, 4242)
            ctx.mon('c18.search_continues')
            a, b = snapshot.state_hashes(M['nas']), snapshot.state_hashes(T['nas'])
            if a != b and not df:
                ctx.violation('search-diverges', dict(d0, sig=kind, differing=[
                    k for k in a if b.get(k) != a[k]][:6]))
        except Exception as e:
            ctx.violation('observer-crash', dict(d0, sig='continue:' + type(e).__name__ + ':' + kind,
                                                 exc=repr(e)[:300]))
        if any(o not in ('forward', 'mode_eval') for o in seq):
            ctx.nontriv((kind, tuple(seq), case['cfg']['train'], case['cfg']['full_cost'],
                         case['cfg'].get('fold')))
        ctx.cls(f"{kind}-{'train' if case['cfg']['train'] else 'eval'}-len{len(seq)}")
    ctx.sample({'kind': kind, 'train': case['cfg']['train'], 'full_cost': case['cfg']['full_cost'],
                'sequences': case['seqs'][:3]})
