"""C10 - what is evaluated, what is reported and what is exported are the same choice.

Monitor: history + offline checker.  Class-level wrappers around the real sampling functions
(MPSBaseQtz.sample_alpha_sm/gs/none, SuperNetCombiner.sample_alpha_sm/gs) append one event per call
(object, sampler that actually ran, train/eval, hard flag, temperature, raw coefficients, theta
before/after) to an event log; the offline checker applies the rules of the statement to every
event; summary() and export() are compared with R-select at the end of every history.
"""
import math
import random

import torch
import torch.nn as nn

from vf import mpslib, snlib

ID = 'C10'
LEVEL = 'exploration'
RULE = ('histories = random interleavings (length <= 6) of option updates (temperature in '
        '[0.05,20], hard, gumbel, disable_sampling - singly and combined), train()/eval() switches, '
        'coefficient re-assignments and forward passes on (a) stand-alone MPS per-layer quantizers '
        'with 1..8 candidates, per-channel quantizers up to 8x16, SuperNet combiners with 2..12 '
        'branches; (b) whole MPS models (per-layer and per-channel) and SuperNet models, ending '
        'with summary() and export() (in a third of them after re-assigning the coefficients without '
        'a new forward pass).  Coefficients have pairwise gaps >= 0.05.  The sampler that actually '
        'runs is also compared with the one configured by the history (last writer wins).  Every sampling '
        'call is one event checked offline.  Non-trivial: an event with >= 2 alternatives whose '
        'arg-max is not alternative 0; distinct = hash of (object kind, sampler, mode, hard, '
        'rounded temperature, alpha).')
RULE += ('  Round 3: Conv1d MPS models; a noisy (Gumbel, T in [3,20]) training sample followed by disable_sampling=True before summary()/export(); exported input / residual-sum quantizers compared with summary().')
RULE += ('  Round 5: stand-alone combiners end with a minimum-gap (0.05) assignment at T in {0.05, 1, 5, 10, 20}; summary() must report a unique maximum at the arg-max.')
ASSUMPTIONS = [
    'the rules are keyed on the sampler that actually ran (observed), not on the configured one',
    'under disable_sampling nothing is sampled: the only claim is that theta is left bit-identical',
    'SuperNet summary() is compared with export in eval / non-Gumbel mode only',
]
REQUIRED_MONITORS = ['c10.event', 'c10.onehot_rule', 'c10.summary_export',
                     'c10.configured_sampler']
MIN_NONTRIVIAL = {'quick': 500, 'thorough': 8000}
EXHAUSTIVE = {'quick': False, 'thorough': False}

_log = []
_flags = {'record': False}


def cases(tier, seed):
    cs = []
    n = 300 if tier == 'quick' else 12000
    for i in range(n):
        cs.append({'kind': ['qtz-layer', 'qtz-channel', 'combiner'][i % 3], 'seed': seed * 7919 + i})
    m = 90 if tier == 'quick' else 4500
    for i in range(m):
        cs.append({'kind': ['mps-layer', 'mps-channel', 'supernet'][i % 3],
                   'seed': seed * 104729 + i})
    # the repository's own MPS / SuperNet tests: every sampling event they cause goes through the same
    # offline checker (coefficients moved by a real optimiser)
    from vf import suitewl
    cs += suitewl.cases(tier, select=('test_mps/', 'test_supernet/'),
                        slow_in_quick=('test_regularization_loss_alpha_descent_layer',))
    return cs


def worker_setup(ctx):
    from vf import neutral
    neutral.enable(ctx)      # neutral prefixes after conversion in half of the cases
    from plinio.methods.mps.nn.qtz import MPSBaseQtz
    from plinio.methods.supernet.nn.combiner import SuperNetCombiner

    def wrap(cls, fname, kind):
        orig = getattr(cls, fname)

        def monitored(self):
            if not _flags['record']:
                return orig(self)
            before = self.theta_alpha.detach().clone() if isinstance(
                getattr(self, 'theta_alpha', None), torch.Tensor) else None
            depth = _flags.get('depth', 0)
            _flags['depth'] = depth + 1
            try:
                res = orig(self)
            finally:
                _flags['depth'] = depth
            temp = getattr(self, 'temperature', None)
            if temp is None:
                temp = getattr(self, 'softmax_temperature', None)
            _log.append({'obj': id(self), 'kind': kind, 'sampler': fname.replace('sample_alpha_', ''),
                         'training': bool(self.training), 'hard': bool(self.hard_softmax),
                         'temperature': float(temp),
                         'alpha': self.alpha.detach().clone(), 'before': before,
                         'after': self.theta_alpha.detach().clone(),
                         'outermost': depth == 0,
                         'configured': dict(getattr(self, '_vf_cfg', None) or {}) or None})
            return res
        setattr(cls, fname, monitored)
    for f in ('sample_alpha_sm', 'sample_alpha_gs', 'sample_alpha_none'):
        wrap(MPSBaseQtz, f, 'mps')
    for f in ('sample_alpha_sm', 'sample_alpha_gs'):
        wrap(SuperNetCombiner, f, 'sn')


def _min_top2_gap(a):
    """smallest gap between the two largest raw coefficients of any column (inf for one alternative)"""
    a2 = a.reshape(a.shape[0], -1)
    if a2.shape[0] < 2:
        return float('inf')
    top = torch.topk(a2, 2, dim=0).values
    return float((top[0] - top[1]).min())


def check_events(ctx, events, min_gap=None):
    """offline checker over the recorded sampling events.  `min_gap`: for workloads that do not
    construct their coefficients (the repository's tests), the arg-max clauses are applied only to
    events whose two largest coefficients are at least that far apart in every column (the property
    excludes ties; its quantifier says gaps >= 0.05) - the probability-vector clause always applies."""
    for ev in events:
        ctx.mon('c10.event')
        a, th = ev['alpha'].double(), ev['after'].double()
        kind, sampler = ev['kind'], ev['sampler']
        d = {'kind': kind, 'sampler': sampler, 'training': ev['training'], 'hard': ev['hard'],
             'temperature': ev['temperature'], 'alpha': ev['alpha'], 'theta': ev['after']}
        cfg = ev.get('configured')
        if cfg is not None and ev.get('outermost', True):
            ctx.mon('c10.configured_sampler')
            want = 'none' if cfg.get('disabled') else ('gs' if cfg.get('gumbel') else 'sm')
            if sampler != want or bool(cfg.get('hard')) != ev['hard']:
                ctx.violation('sampling-rule', dict(
                    d, sig='configured-vs-actual-sampler:' + kind, configured=cfg,
                    expected_sampler=want))
        if sampler == 'none':
            if ev['before'] is None or not torch.equal(ev['before'], ev['after']):
                ctx.violation('sampling-rule', dict(d, sig='disabled-sampling-changed-theta'))
            continue
        if a.numel() == 0:
            continue
        cols = th.sum(dim=0)
        if not bool(torch.isfinite(th).all()) or bool((th < 0).any()) or \
                bool(((cols - 1).abs() > 1e-6).any()):
            ctx.violation('sampling-rule', dict(d, sig='not-a-probability-vector:' + kind))
            continue
        if min_gap is not None and not (_min_top2_gap(a) >= min_gap):
            ctx.count('events_with_near_ties_probability_clause_only')
            continue
        sel = a.argmax(dim=0)
        onehot = bool(((th == 0) | (th == 1)).all())
        at_argmax = bool((th.argmax(dim=0) == sel).all())
        need_argmax_onehot = (not ev['training']) or (ev['hard'] and sampler == 'sm')
        need_onehot = ev['training'] and ev['hard'] and sampler == 'gs'
        ctx.mon('c10.onehot_rule')
        if need_argmax_onehot and not (onehot and at_argmax):
            soft_ok = at_argmax and not onehot
            ctx.violation('sampling-rule', dict(
                d, sig=('not-onehot' if soft_ok else 'wrong-argmax') + ':' + kind + ':' +
                ('eval' if not ev['training'] else 'train-hard'),
                onehot=onehot, at_argmax=at_argmax, r_select=sel.tolist()))
        elif need_onehot and not onehot:
            ctx.violation('sampling-rule', dict(d, sig='gumbel-hard-not-onehot:' + kind))
        nalt = a.shape[0]
        if nalt >= 2 and bool((sel != 0).any()):
            ctx.nontriv((kind, sampler, ev['training'], ev['hard'], round(ev['temperature'], 3),
                         [round(v, 4) for v in a.flatten().tolist()]))
        ctx.cls(f"{kind}-{sampler}-{'train' if ev['training'] else 'eval'}"
                f"-{'hard' if ev['hard'] else 'soft'}")


def random_options(rng):
    t = 10 ** rng.uniform(math.log10(0.05), math.log10(20))
    pool = [{'temperature': t}, {'hard': rng.random() < 0.5}, {'gumbel': rng.random() < 0.5},
            {'disable_sampling': rng.random() < 0.4},
            {'temperature': t, 'hard': rng.random() < 0.5, 'gumbel': rng.random() < 0.5,
             'disable_sampling': rng.random() < 0.2},
            {'hard': True, 'gumbel': True}, {'hard': True, 'gumbel': False,
                                             'disable_sampling': False}]
    return rng.choice(pool)


def set_alpha(q, rng):
    with torch.no_grad():
        if q.alpha.dim() == 1:
            q.alpha.data.copy_(torch.tensor(mpslib.margin_vector(rng, q.alpha.shape[0])))
        else:
            cols = [mpslib.margin_vector(rng, q.alpha.shape[0]) for _ in range(q.alpha.shape[1])]
            q.alpha.data.copy_(torch.tensor(cols).t())


def run_object_history(case, ctx):
    from plinio.methods.mps.nn.qtz import MPSPerLayerQtz, MPSPerChannelQtz
    from plinio.methods.mps.quant.quantizers import PACTAct, MinMaxWeight
    from plinio.methods.supernet.nn.combiner import SuperNetCombiner
    rng = random.Random(case['seed'])
    k = case['kind']
    hist = []
    if k == 'qtz-layer':
        n = rng.randint(1, 8)
        prec = tuple(rng.sample(range(1, 9), n))
        q = MPSPerLayerQtz(prec, PACTAct, {'cout': 3})
        x = torch.rand(2, 3, 4, 4)
        fwd = lambda: q(x)
    elif k == 'qtz-channel':
        n, C = rng.randint(1, 8), rng.randint(1, 16)
        prec = tuple(rng.sample(range(0, 9), n))
        if max(prec) == 0:          # "0 bit only" is not a search space
            prec = (8,)
        q = MPSPerChannelQtz(prec, MinMaxWeight, {'cout': C})
        x = torch.randn(C, 2, 3, 3)
        fwd = lambda: q(x)
    else:
        n = rng.randint(2, 12)
        q = SuperNetCombiner(n, gumbel_softmax=rng.random() < 0.5, hard_softmax=rng.random() < 0.5)
        xs = [torch.randn(2, 3) for _ in range(n)]
        fwd = lambda: q(xs)
    set_alpha(q, rng)
    if k != 'combiner':
        q._vf_cfg = {'hard': False, 'gumbel': False, 'disabled': False}
    _log.clear()
    _flags['record'] = True
    try:
        for step in range(rng.randint(2, 6)):
            r = rng.random()
            if r < 0.3 and k != 'combiner':
                o = random_options(rng)
                q.update_softmax_options(**o)
                for kk, vv in o.items():
                    if kk != 'temperature':
                        q._vf_cfg[{'disable_sampling': 'disabled'}.get(kk, kk)] = vv
                hist.append(('options', o))
            elif r < 0.3:
                if rng.random() < 0.5:
                    q.softmax_temperature = 10 ** rng.uniform(math.log10(0.05), math.log10(20))
                else:
                    q.hard_softmax = rng.random() < 0.5
                hist.append(('combiner-option', q.softmax_temperature, q.hard_softmax))
            elif r < 0.45:
                q.train(rng.random() < 0.5)
                hist.append(('train' if q.training else 'eval',))
            elif r < 0.55:
                set_alpha(q, rng)
                hist.append(('alpha',))
            else:
                with torch.no_grad():
                    fwd()
                hist.append(('forward',))
        with torch.no_grad():
            fwd()
    finally:
        _flags['record'] = False
    check_events(ctx, list(_log))
    if k == 'combiner':
        # what summary() reports, at the smallest coefficient gap the property covers (0.05) and over
        # the whole temperature range: the reported maximum is unique and sits at the arg-max
        n = q.alpha.numel()
        vals = [rng.uniform(-1.0, 0.40) for _ in range(n)]
        w, second = rng.sample(range(n), 2)
        vals[w], vals[second] = 0.50, 0.45
        with torch.no_grad():
            q.alpha.data.copy_(torch.tensor(vals))
        q.softmax_temperature = rng.choice([0.05, 1.0, 5.0, 10.0, 20.0])
        q.eval()
        with torch.no_grad():
            fwd()
        rep = q.summary()['supernet_branches']
        got = [rep[f'branch_{i}']['alpha'] for i in range(n)]
        ctx.mon('c10.summary_export')
        leaders = [i for i, v in enumerate(got) if v == max(got)]
        if leaders != [w]:
            ctx.violation('summary-vs-rselect', {'sig': 'combiner-summary', 'reported': got,
                                                 'reported_leaders': leaders, 'r_select': w,
                                                 'alpha': vals,
                                                 'temperature': q.softmax_temperature})
        ctx.cls('combiner-summary-min-gap')
    if case['seed'] % 40 == 0 and _log:
        ev = _log[-1]
        ctx.sample({'object': k, 'history': hist, 'last_event': {
            'sampler': ev['sampler'], 'training': ev['training'], 'hard': ev['hard'],
            'temperature': ev['temperature'], 'alpha': ev['alpha'], 'theta': ev['after']}})


def run_model_history(case, ctx):
    rng = random.Random(case['seed'])
    k = case['kind']
    hist = []
    if k == 'supernet':
        desc = snlib.gen_sn_desc(rng, max_branches=6)
        desc['gumbel'] = rng.random() < 0.4
        desc['hard'] = rng.random() < 0.4
        try:
            model, nas = snlib.convert_sn(desc, case['seed'])
        except Exception as e:
            ctx.skip(type(e).__name__ + ': ' + str(e)[:80])
            return
        x = snlib.sn_input(desc, case['seed'], 2)
        winners = [rng.randrange(len(st['branches'])) for st in snlib.sn_blocks(desc)]
        snlib.set_winners(nas, desc, winners, rng)
    else:
        prog = mpslib.gen_mps_program(rng, small=True,
                                      family='1d' if (case['seed'] // 3) % 4 == 3 else '2d')
        pc = k == 'mps-channel'
        w_prec = rng.choice(mpslib.PRECISION_TUPLES) if not pc else rng.choice(
            [(0, 2, 4, 8), (2, 4, 8), (8, 0, 2)])
        try:
            g0, h0 = rng.random() < 0.3, rng.random() < 0.3
            model, nas, xs = mpslib.convert_mps(prog, case['seed'], w_prec,
                                                rng.choice(mpslib.PRECISION_TUPLES),
                                                per_channel=pc, gumbel=g0, hard=h0)
            for _k, names, q in mpslib.unique_qtz(nas):
                if any(not n.endswith('in_mps_quantizer') for n in names):
                    q._vf_cfg = {'hard': h0, 'gumbel': g0, 'disabled': False}
        except Exception as e:
            ctx.skip(type(e).__name__ + ': ' + str(e)[:80])
            return
        x = mpslib.in_range_inputs(prog, case['seed'], 2)
        assign = mpslib.assign_coefficients(nas, rng)
        init_cfg = None
    if k != 'supernet':
        ctx.cls('mps-family:' + prog['family'])

    def apply_options(o):
        nas.update_softmax_options(**o)
        if k != 'supernet':
            for _k, names, q in mpslib.unique_qtz(nas):
                if hasattr(q, '_vf_cfg'):
                    for kk, vv in o.items():
                        if kk != 'temperature':
                            q._vf_cfg[{'disable_sampling': 'disabled'}.get(kk, kk)] = vv
        hist.append(('options', o))
    _log.clear()
    _flags['record'] = True
    try:
        for step in range(rng.randint(2, 6)):
            r = rng.random()
            if r < 0.35:
                if k == 'supernet':
                    o = {'temperature': 10 ** rng.uniform(math.log10(0.05), math.log10(20))} \
                        if rng.random() < 0.5 else {'hard': rng.random() < 0.5}
                else:
                    o = random_options(rng)
                apply_options(o)
            elif r < 0.5:
                nas.train(rng.random() < 0.5)
                hist.append(('train' if nas.training else 'eval',))
            elif r < 0.62:
                # a parameter group is frozen / released (the phases of a search): whether the
                # coefficients are *trainable* has nothing to do with how they are sampled
                ctl = rng.choice(['train_net_only', 'train_nas_only', 'train_net_and_nas'])
                getattr(nas, ctl)()
                hist.append((ctl,))
                ctx.cls('history:' + ctl)
            else:
                with torch.no_grad():
                    nas(x)
                hist.append(('forward',))
        # end of history: summary / export against R-select.  In a third of the histories the
        # coefficients are re-assigned AFTER the last forward and the mode is left as it is
        # (non-Gumbel): what is reported / exported must follow the current raw coefficients
        stale_probe = (case['seed'] // 3) % 3 == 0      # (decorrelated from the model kind)
        if stale_probe:
            nas.train((case['seed'] // 9) % 2 == 0)
            with torch.no_grad():
                nas(x)
            if k == 'supernet':
                if desc.get('gumbel'):      # Gumbel noise in train mode: compared in eval only
                    nas.eval()
                winners = [(w + 1 + rng.randrange(max(1, len(st['branches']) - 1))) %
                           len(st['branches']) for st, w in zip(snlib.sn_blocks(desc), winners)]
                snlib.set_winners(nas, desc, winners, rng)
            else:
                assign = mpslib.assign_coefficients(nas, rng)
            hist.append(('coefficients-reassigned-after-last-forward',
                         'train' if nas.training else 'eval'))
        elif k != 'supernet' and (case['seed'] // 3) % 3 == 1:
            # noisy (Gumbel, high temperature) sample in training, then sampling is disabled: the
            # stored sample no longer points at the arg-max of the raw coefficients, and nothing
            # re-samples it before summary() / export()
            apply_options({'gumbel': True, 'hard': False, 'disable_sampling': False,
                           'temperature': rng.uniform(3.0, 20.0)})
            nas.train()
            with torch.no_grad():
                nas(x)
            apply_options({'disable_sampling': True})
            nas.train((case['seed'] // 9) % 2 == 0)
            hist.append(('noisy-sample-then-sampling-disabled',
                         'train' if nas.training else 'eval'))
            ctx.cls('end:noisy-sample-then-sampling-disabled')
        else:
            nas.eval()
            with torch.no_grad():
                nas(x)
        summ = nas.summary()
    finally:
        _flags['record'] = False
    check_events(ctx, list(_log))
    ctx.mon('c10.summary_export')
    if k == 'supernet':
        blocks = snlib.sn_blocks(desc)
        gumbel_noise = False
        for st, w in zip(blocks, winners):
            s = summ[st['name'] + '.sn_combiner']['supernet_branches']
            vals = [s[f'branch_{i}']['alpha'] for i in range(len(st['branches']))]
            rep = max(range(len(vals)), key=lambda i: vals[i])
            if rep != w:
                ctx.violation('summary-vs-rselect', {'sig': 'supernet-summary', 'block': st['name'],
                                                     'reported_best': rep, 'r_select': w,
                                                     'reported': vals})
        try:
            exported = nas.export()
            import re
            names = [n for n, _ in exported.named_modules()]
            for st, w in zip(blocks, winners):
                idx = {int(m.group(1)) for n in names for m in [re.match(
                    r'^' + re.escape(st['name']) + r'\.sn_branches\.(\d+)(\.|$)', n)] if m}
                if idx != {w}:
                    ctx.violation('export-vs-rselect', {'sig': 'supernet-export',
                                                        'block': st['name'],
                                                        'surviving': sorted(idx), 'r_select': w})
        except Exception as e:
            ctx.violation('export-crash', {'sig': type(e).__name__, 'exc': repr(e)[:200]})
    else:
        by_owner = {}
        for a in assign:
            for nm in a['names']:
                by_owner[nm] = a
        for name, s in summ.items():
            for attr, key in (('out_mps_quantizer', 'out_precision'),
                              ('w_mps_quantizer', 'w_precision'),
                              ('in_mps_quantizer', 'in_precision')):
                a = by_owner.get(name + '.' + attr)
                if a is None or key not in s:
                    continue
                if isinstance(a['argmax'], list):
                    want = [a['precision'][i] for i in a['argmax']]
                else:
                    want = a['precision'][a['argmax']]
                if s[key] != want:
                    ctx.violation('summary-vs-rselect', {'sig': 'mps-summary:' + key,
                                                         'layer': name, 'summary': s[key],
                                                         'r_select': want})
        if k == 'mps-layer':
            from vf.props import c02
            try:
                exported = nas.export()
                qm = c02.quant_modules(exported)
                for name, s in summ.items():
                    e = qm.get(name)
                    if e is not None and not hasattr(e, 'w_quantizer') and 'out_precision' in s:
                        # input / residual-sum quantizers
                        got = c02.qprec(getattr(e, 'out_quantizer', None))
                        if got is not None and got != s['out_precision']:
                            ctx.violation('export-vs-rselect', {
                                'sig': 'mps-export-identity', 'layer': name, 'summary': dict(s),
                                'exported_out': got, 'history': hist[-3:]})
                    if e is None or not hasattr(e, 'w_quantizer'):
                        continue
                    if c02.qprec(e.in_quantizer) not in (s.get('in_precision'), None):
                        ctx.violation('export-vs-rselect', {
                            'sig': 'mps-export-in', 'layer': name, 'summary': dict(s),
                            'exported_in': c02.qprec(e.in_quantizer), 'history': hist[-3:]})
                    if c02.qprec(e.w_quantizer) != s['w_precision'] or \
                            c02.qprec(e.out_quantizer) not in (s['out_precision'], None):
                        ctx.violation('export-vs-rselect', {
                            'sig': 'mps-export', 'layer': name, 'summary': dict(s),
                            'exported_w': c02.qprec(e.w_quantizer),
                            'exported_out': c02.qprec(e.out_quantizer)})
            except Exception as e:
                ctx.violation('export-crash', {'sig': type(e).__name__, 'exc': repr(e)[:200]})
    if case['seed'] % 15 == 0:
        ctx.sample({'model': k, 'history': hist, 'n_sampling_events': len(_log)})


def run_suite(case, ctx):
    from vf import suitewl
    _log.clear()
    _flags['record'] = True

    def flush(_nodeid):
        evs = list(_log)
        _log.clear()
        for e in evs:
            e['configured'] = None
        check_events(ctx, evs, min_gap=0.05)
    try:
        suitewl.run(case, ctx, ('c10.event',), on_test_end=flush)
    finally:
        _flags['record'] = False
        _log.clear()


def run_case(case, ctx):
    if case.get('kind') == 'repo-suite':
        return run_suite(case, ctx)
    if case['kind'] in ('qtz-layer', 'qtz-channel', 'combiner'):
        run_object_history(case, ctx)
    else:
        run_model_history(case, ctx)
