"""C11 - trainability controls do what they say under every sequence of calls.

Monitor: executable reference model R-train run in lock-step with the real model over histories
(closure under abstract-state reachability): partition of parameters() by identity, requires_grad
of every parameter, frozen parameters never trainable and never receiving a gradient, single-option
updates of the sampling options leaving the others untouched.
"""
import random

import torch
import torch.nn as nn

from vf import pitlib, mpslib, snlib
from vf.gen import pitgen

ID = 'C11'
LEVEL = 'exploration'
RULE = ('histories = breadth-first closure over call sequences from the alphabet {train_nas_only, '
        'train_net_only, train_net_and_nas, train_features/rf/dilation := T/F, discrete_cost := T/F '
        '(PIT); update_softmax_options with each single option (temperature, hard, gumbel, '
        'disable_sampling := T/F) (MPS, SuperNet where available); forward+backward of loss+cost}: a '
        'sequence is extended only if it reached a new abstract state (requires_grad vector, '
        'per-quantizer sampler tuple, PIT flags), to length 3 (quick) / 4 (thorough), then one '
        'random continuation to length 8; models: a PIT TCN with a strided conv, a residual group '
        'and an output head; MPS per-layer and per-channel nets with a residual add; a SuperNet.  '
        'One case = (model, first action); R-train is compared after every call.  Non-trivial: a '
        'history that reached an abstract state different from the initial one; distinct = '
        '(model, call sequence).')
RULE += ('  Round 3: a Conv1d MPS model (mps-layer-1d).')
RULE += ('  Round 4b/5: model pit-dense-head (output = nest of concats); buffers of Frozen* maskers must never require or receive a gradient.')
ASSUMPTIONS = [
    'frozen components are identified independently: layers tied to a network input / output by '
    'the program-level width analysis (features) and strided convolutions (receptive field, '
    'dilation)',
    'gradient non-receipt is asserted for frozen parameters only (grad None or all-zero) and '
    '"grad is None" for parameters that are not trainable',
]
REQUIRED_MONITORS = ['c11.partition', 'c11.requires_grad', 'c11.frozen_grad', 'c11.options']
MIN_NONTRIVIAL = {'quick': 300, 'thorough': 3000}
EXHAUSTIVE = {'quick': False, 'thorough': False}
EXHAUSTIVE_NOTE = 'closed under abstract-state reachability up to the stated length per (model, first action)'
TIMEOUT = {'quick': 1500, 'thorough': 10000}

PIT_ALPHA = ['train_nas_only', 'train_net_only', 'train_net_and_nas',
             'train_features=T', 'train_features=F', 'train_rf=T', 'train_rf=F',
             'train_dilation=T', 'train_dilation=F', 'discrete_cost=T', 'discrete_cost=F',
             'fwd_bwd']
MPS_ALPHA = ['train_nas_only', 'train_net_only', 'train_net_and_nas',
             'temperature=0.5', 'temperature=3.0', 'hard=T', 'hard=F', 'gumbel=T', 'gumbel=F',
             'disable_sampling=T', 'disable_sampling=F', 'fwd_bwd']
SN_ALPHA = ['train_nas_only', 'train_net_only', 'train_net_and_nas', 'temperature=0.5',
            'temperature=3.0', 'hard=T', 'hard=F', 'fwd_bwd']
# 'pit-trailing': the same TCN whose output passes through an activation after the last layer (the
# head is output-connected although it is not the node feeding the output)
# 'mps-layer-1d': a Conv1d network (MPSConv1d forwards the options on its own)
# 'pit-dense-head': the output is cat(cat(cat(fc, fq), fb), fz) - every classifier is frozen
# 'pit-reuse-split': one conv invoked twice - the first result is summed into the network output behind
# three element-wise ops (so a reverse BFS reaches the *other* call site first), the second feeds a
# hidden conv: the layer, the head and (through the layer's single input mask) `mid` are frozen
MODELS = {'pit': PIT_ALPHA, 'pit-trailing': PIT_ALPHA, 'pit-dense-head': PIT_ALPHA,
          'pit-reuse-split': PIT_ALPHA,
          'mps-layer': MPS_ALPHA,
          'mps-channel': MPS_ALPHA, 'mps-layer-1d': MPS_ALPHA, 'supernet': SN_ALPHA}


def cases(tier, seed):
    cs = []
    for model, alpha in MODELS.items():
        for a in alpha:
            cs.append({'model': model, 'first': a, 'depth': 3 if tier == 'quick' else 4,
                       'seed': seed})
    return cs


def worker_setup(ctx):
    pass


# ------------------------------------------------------------------------------------------------
# model construction (fresh per replay)
# ------------------------------------------------------------------------------------------------
def pit_program(trailing=False, dense_head=False):
    ops = [
        {'op': 'conv', 'name': 'c1', 'src': 'x0', 'out': 'a', 'cin': 2, 'cout': 4, 'k': 3, 'd': 1,
         's': 2, 'bias': True, 'pad': 'causal', 'dw': False},
        {'op': 'act', 'kind': 'relu_f', 'src': 'a', 'out': 'a1'},
        {'op': 'conv', 'name': 'c2', 'src': 'a1', 'out': 'b', 'cin': 4, 'cout': 4, 'k': 3, 'd': 1,
         's': 1, 'bias': True, 'pad': 'causal', 'dw': False},
        {'op': 'bn', 'name': 'bn2', 'src': 'b', 'out': 'b1', 'c': 4, 'bdim': 1, 'affine': True},
        {'op': 'conv', 'name': 'c3', 'src': 'a1', 'out': 'c', 'cin': 4, 'cout': 4, 'k': 2, 'd': 1,
         's': 1, 'bias': False, 'pad': 'causal', 'dw': False},
        {'op': 'add', 'srcs': ['b1', 'c'], 'kind': 'op', 'out': 'r'},
        {'op': 'act', 'kind': 'relu_mod', 'name': 'act', 'src': 'r', 'out': 'r1'},
        {'op': 'conv', 'name': 'c4', 'src': 'r1', 'out': 'd', 'cin': 4, 'cout': 3, 'k': 5, 'd': 1,
         's': 1, 'bias': True, 'pad': 'causal', 'dw': False},
        {'op': 'pool', 'kind': 'aavg', 'k': 0, 'name': 'gap', 'src': 'd', 'out': 'g'},
        {'op': 'flat', 'kind': 'meth', 'src': 'g', 'out': 'f'},
        {'op': 'lin', 'name': 'fc', 'src': 'f', 'out': 'o', 'fin': 3, 'fout': 2, 'bias': True},
    ]
    out = 'o'
    if trailing:
        ops.append({'op': 'act', 'kind': 'sigmoid', 'src': 'o', 'out': 'o2'})
        out = 'o2'
    if dense_head:
        # the output is a nest of concats of four classifiers: all of them are tied to the output
        for i, (nm, w) in enumerate((('fq', 2), ('fb', 1), ('fz', 2))):
            ops.append({'op': 'lin', 'name': nm, 'src': 'f', 'out': 'o_' + nm, 'fin': 3, 'fout': w,
                        'bias': True})
            ops.append({'op': 'cat', 'srcs': [out, 'o_' + nm], 'dim': 1, 'axis': 1,
                        'out': 'k%d' % i})
            out = 'k%d' % i
    return {'family': '1d', 'inputs': [[2, 12]], 'ops': ops, 'out': out, 'excluded': [],
            'features': ['tcn'], 'traits': []}


def build_model(kind):
    from plinio import cost as pc
    if kind.startswith('pit'):
        prog = pit_program(trailing=kind == 'pit-trailing', dense_head=kind == 'pit-dense-head')
        if kind == 'pit-reuse-split':
            prog = pitgen.reuse_split_program(random.Random(11), '2d', 3, 'out')
            # a searchable stage in front, so that the model keeps trainable masks
            c = prog['inputs'][0][0]
            for op in prog['ops']:
                for key in ('src',):
                    if op.get(key) == 'x0':
                        op[key] = 'z1'
                if 'srcs' in op:
                    op['srcs'] = ['z1' if s_ == 'x0' else s_ for s_ in op['srcs']]
            prog['ops'] = [{'op': 'conv', 'name': 'stem', 'src': 'x0', 'out': 'z', 'cin': c, 'cout': 5,
                            'k': 3, 'd': 1, 's': 1, 'pad': 'same', 'bias': True, 'dw': False},
                           {'op': 'act', 'kind': 'relu_f', 'src': 'z', 'out': 'z0'},
                           {'op': 'conv', 'name': 'stem2', 'src': 'z0', 'out': 'z1', 'cin': 5, 'cout': c,
                            'k': 3, 'd': 1, 's': 1, 'pad': 'same', 'bias': True, 'dw': False}] + prog['ops']
        model, nas, xs = pitlib.convert_pit(prog, 1, cost=pc.params, train_mode=True)
        x = pitgen.example_inputs(prog, 2, 3)
        return nas, x, prog
    if kind.startswith('mps'):
        rng = random.Random(5)
        prog = None
        for _ in range(200):
            prog = mpslib.gen_mps_program(rng, small=True, max_c=4,
                                          family='1d' if kind.endswith('1d') else '2d')
            if 'add' in prog['features']:
                break
        model, nas, xs = mpslib.convert_mps(prog, 2, (2, 4, 8) if kind != 'mps-channel' else (0, 2, 8),
                                            (2, 4, 8), per_channel=kind == 'mps-channel',
                                            cost=pc.params_bit, train_mode=True)
        return nas, [mpslib.in_range_inputs(prog, 3, 2)], prog
    rng = random.Random(7)
    desc = snlib.gen_sn_desc(rng, n_blocks=2, max_branches=3)
    model, nas = snlib.convert_sn(desc, 3, cost=pc.params)
    nas.train()
    return nas, [snlib.sn_input(desc, 3, 2)], desc


# ------------------------------------------------------------------------------------------------
# R-train
# ------------------------------------------------------------------------------------------------
class RTrain:
    """parameter (by identity) -> expected requires_grad; quantizer -> (temperature, hard, gumbel,
    disabled).  Frozen parameters are pinned to False."""
    def __init__(self, kind, nas, prog):
        self.kind = kind
        self.nas_ids, self.frozen_ids, self.group = set(), set(), {}
        self.expect = {}
        if kind.startswith('pit'):
            from plinio.methods.pit.nn import PITConv1d
            _, must_full = pitlib.width_groups(prog)
            strided = {op['name'] for op in prog['ops'] if op['op'] == 'conv' and op['s'] != 1}
            for name, layer in pitlib.pit_layers(nas):
                fm = getattr(layer, 'out_features_masker', None)
                if fm is not None:
                    for p in fm.parameters(recurse=False):
                        self.nas_ids.add(id(p))
                        self.group[id(p)] = 'features'
                        if name in must_full:
                            self.frozen_ids.add(id(p))
                if isinstance(layer, PITConv1d):
                    for m, g in ((layer.timestep_masker, 'rf'), (layer.dilation_masker, 'dilation')):
                        for p in m.parameters(recurse=False):
                            self.nas_ids.add(id(p))
                            self.group[id(p)] = g
                            if name in strided:
                                self.frozen_ids.add(id(p))
        # "the named group" is the group the model itself reports (its stability over the history
        # and the partition are checked separately); the PIT masks collected above must be in it
        self.mask_ids = set(self.nas_ids)
        self.nas_ids = {id(p) for p in nas.nas_parameters()}
        for p in nas.parameters():
            self.expect[id(p)] = bool(p.requires_grad) and id(p) not in self.frozen_ids
        self.initial_mismatch = [id(p) for p in nas.parameters()
                                 if id(p) in self.frozen_ids and p.requires_grad]
        self.options = None

    def apply(self, action):
        if action in ('train_nas_only', 'train_net_only', 'train_net_and_nas'):
            for pid in self.expect:
                is_nas = pid in self.nas_ids
                v = {'train_nas_only': is_nas, 'train_net_only': not is_nas,
                     'train_net_and_nas': True}[action]
                self.expect[pid] = v and pid not in self.frozen_ids
        elif action.split('=')[0] in ('train_features', 'train_rf', 'train_dilation'):
            g = {'train_features': 'features', 'train_rf': 'rf',
                 'train_dilation': 'dilation'}[action.split('=')[0]]
            v = action.endswith('=T')
            for pid, gg in self.group.items():
                if gg == g and pid not in self.frozen_ids:
                    self.expect[pid] = v


def sampler_state(q):
    fn = getattr(q.sample_alpha, '__func__', q.sample_alpha)
    name = getattr(fn, '__name__', str(fn))
    temp = getattr(q, 'temperature', None)
    if temp is None:
        temp = getattr(q, 'softmax_temperature', None)
    return {'sampler': name.replace('sample_alpha_', ''), 'hard': bool(q.hard_softmax),
            'temperature': round(float(temp), 5)}


def quantizers(kind, nas):
    if kind.startswith('mps'):
        # quantizers that some layer owns as output / weight quantizer (the never-used dummy input
        # quantizer of the network-input layer is not a decision)
        return [q for _, names, q in mpslib.unique_qtz(nas)
                if any(not n.endswith('in_mps_quantizer') for n in names)]
    if kind == 'supernet':
        return [c for _, c in snlib.combiners(nas)]
    return []


def do_action(kind, nas, x, action):
    if action in ('train_nas_only', 'train_net_only', 'train_net_and_nas'):
        getattr(nas, action)()
    elif action == 'fwd_bwd':
        nas.zero_grad(set_to_none=True)
        y = nas(*x)
        loss = y.pow(2).mean() + 1e-3 * nas.cost
        if loss.requires_grad:
            loss.backward()
        return True
    else:
        k, v = action.split('=')
        if k in ('train_features', 'train_rf', 'train_dilation', 'discrete_cost'):
            setattr(nas, k, v == 'T')
        elif k == 'temperature':
            nas.update_softmax_options(temperature=float(v))
        elif k in ('hard', 'gumbel', 'disable_sampling'):
            nas.update_softmax_options(**{k: v == 'T'})
    return False


def abstract_state(kind, nas):
    rg = tuple(bool(p.requires_grad) for p in nas.parameters())
    qs = tuple(tuple(sorted(sampler_state(q).items())) for q in quantizers(kind, nas))
    flags = ()
    if kind.startswith('pit'):
        flags = (nas.train_features, nas.train_rf, nas.train_dilation, nas.discrete_cost)
    return (rg, qs, flags)


def check_after(ctx, kind, nas, rt, action, seq, did_backward, before_q):
    d = {'model': kind, 'sequence': list(seq), 'after': action}
    # (I1) partition
    ctx.mon('c11.partition')
    allp = [id(p) for p in nas.parameters()]
    nasl = [id(p) for p in nas.nas_parameters()]
    netl = [id(p) for p in nas.net_parameters()]
    if sorted(nasl + netl) != sorted(allp) or len(set(nasl)) != len(nasl) or \
            len(set(netl)) != len(netl) or set(nasl) & set(netl):
        ctx.violation('partition', dict(d, sig='partition', n_all=len(allp), n_nas=len(nasl),
                                        n_net=len(netl), overlap=len(set(nasl) & set(netl))))
    names = {id(p): n for n, p in nas.named_parameters()}
    if set(nasl) != rt.nas_ids or not rt.mask_ids <= set(nasl) | (set(allp) ^ set(allp)):
        missing = [names.get(i) for i in rt.mask_ids if i in set(allp) and i not in set(nasl)]
        if set(nasl) != rt.nas_ids or missing:
            ctx.violation('partition', dict(d, sig='nas-group-changed-or-mask-missing',
                                            masks_not_reported_as_nas=missing[:5]))
    # (I2)/(I3) requires_grad
    ctx.mon('c11.requires_grad')
    for p in nas.parameters():
        want = rt.expect[id(p)]
        if bool(p.requires_grad) != want:
            frozen = id(p) in rt.frozen_ids
            ctx.violation('requires-grad', dict(
                d, sig=('frozen-became-trainable' if frozen else 'requires-grad') + ':' + kind,
                parameter=names.get(id(p)), requires_grad=bool(p.requires_grad), expected=want,
                frozen=frozen))
            break
    # (I3b) masks the method froze by construction are stored as buffers of Frozen* maskers: they are
    # no parameters, so only a look at the tensors themselves tells whether they became trainable
    # or received a gradient
    if kind.startswith('pit'):
        for mname, mod in nas.named_modules():
            if not type(mod).__name__.startswith('PITFrozen'):
                continue
            for bname, buf in mod.named_buffers(recurse=False):
                if buf.requires_grad or (buf.grad is not None and bool((buf.grad != 0).any())):
                    ctx.violation('requires-grad', dict(
                        d, sig='frozen-buffer-differentiable:' + kind,
                        parameter=mname + '.' + bname, requires_grad=bool(buf.requires_grad),
                        has_grad=buf.grad is not None))
                    break
    # (I4) gradients
    if did_backward:
        ctx.mon('c11.frozen_grad')
        for p in nas.parameters():
            if id(p) in rt.frozen_ids and p.grad is not None and bool((p.grad != 0).any()):
                ctx.violation('frozen-gradient', dict(d, sig='frozen-received-gradient:' + kind,
                                                      parameter=names.get(id(p)),
                                                      grad=p.grad.flatten()[:6]))
                break
            if not p.requires_grad and id(p) not in rt.frozen_ids and p.grad is not None:
                ctx.violation('frozen-gradient', dict(d, sig='non-trainable-has-grad:' + kind,
                                                      parameter=names.get(id(p))))
                break
    # (I5) single-option updates
    if '=' in action and action.split('=')[0] in ('temperature', 'hard', 'gumbel',
                                                  'disable_sampling'):
        ctx.mon('c11.options')
        k, v = action.split('=')
        reported = False
        for q, b in zip(quantizers(kind, nas), before_q):
            a = sampler_state(q)
            want = dict(b['model'])
            if k == 'temperature':
                want['temperature'] = round(float(v), 5)
            elif k == 'hard':
                want['hard'] = v == 'T'
            elif k == 'gumbel':
                want['gumbel'] = v == 'T'
            else:
                want['disabled'] = v == 'T'
            q._vf_model = want
            exp_sampler = 'none' if want['disabled'] else ('gs' if want['gumbel'] else 'sm')
            got = (a['sampler'], a['hard'], a['temperature'])
            exp = (exp_sampler, want['hard'], want['temperature'])
            if got != exp and not reported:
                reported = True
                ctx.violation('options', dict(d, sig=f'{k}-changed-other-options:' + kind,
                                              before=b['observed'], after=a, expected={
                                                  'sampler': exp_sampler, 'hard': want['hard'],
                                                  'temperature': want['temperature']}))


def init_option_models(kind, nas):
    for q in quantizers(kind, nas):
        s = sampler_state(q)
        q._vf_model = {'temperature': s['temperature'], 'hard': s['hard'],
                       'gumbel': s['sampler'] == 'gs', 'disabled': s['sampler'] == 'none'}


def replay(ctx, kind, seq, check=True):
    """fresh model, apply the sequence, R-train in lock-step; returns the abstract state"""
    nas, x, prog = build_model(kind)
    rt = RTrain(kind, nas, prog)
    init_option_models(kind, nas)
    if check and rt.initial_mismatch:
        names = {id(p): n for n, p in nas.named_parameters()}
        ctx.violation('requires-grad', {'sig': 'frozen-trainable-at-construction:' + kind,
                                        'parameters': [names[i] for i in rt.initial_mismatch]})
    done = []
    for a in seq:
        before_q = [{'observed': sampler_state(q), 'model': dict(q._vf_model)}
                    for q in quantizers(kind, nas)]
        try:
            did_bwd = do_action(kind, nas, x, a)
        except Exception as e:
            if a == 'fwd_bwd' and 'backward through the graph a second time' in str(e) and \
                    any(sampler_state(q)['sampler'] == 'none' for q in quantizers(kind, nas)):
                # observation, not claimed by C11: with sampling disabled the stored coefficients
                # keep the autograd graph of the last sampling, a second backward fails
                ctx.count('observation_second_backward_under_disabled_sampling')
                return None
            ctx.violation('call-crash', {'sig': a.split('=')[0] + ':' + type(e).__name__ + ':' + kind,
                                         'exc': repr(e)[:300], 'sequence': done + [a]})
            return None
        rt.apply(a)
        done.append(a)
        if check:
            check_after(ctx, kind, nas, rt, a, done, did_bwd, before_q)
    return abstract_state(kind, nas)


def run_case(case, ctx):
    kind, alpha = case['model'], MODELS[case['model']]
    rng = random.Random(hash((case['seed'], kind, case['first'])) % (2 ** 31))
    init = replay(ctx, kind, [], check=True)
    visited = {init}
    frontier = [[case['first']]]
    per_depth = {}
    leaves = []
    depth = 1
    while frontier and depth <= case['depth']:
        nxt = []
        for seq in frontier:
            st = replay(ctx, kind, seq)
            ctx.count('replays')
            if st is None:
                continue
            ctx.state((kind, st))
            if st != init:
                ctx.nontriv((kind, tuple(seq)))
            new = st not in visited
            visited.add(st)
            # fwd_bwd never changes the abstract state but is where gradients are observed:
            # sequences ending in it are always checked, never extended further
            if new and depth < case['depth']:
                for a in alpha:
                    nxt.append(seq + [a])
            elif new or seq[-1] == 'fwd_bwd':
                leaves.append(seq)
        per_depth[depth] = len(frontier)
        frontier = nxt
        depth += 1
    # one random continuation to length 8 from a sample of the leaves
    rng.shuffle(leaves)
    for seq in leaves[:6]:
        cont = list(seq)
        while len(cont) < 8:
            cont.append(rng.choice(alpha))
        if cont[-1] != 'fwd_bwd':
            cont[-1] = 'fwd_bwd'
        st = replay(ctx, kind, cont)
        ctx.count('replays')
        if st is not None:
            ctx.state((kind, st))
            ctx.nontriv((kind, tuple(cont)))
    ctx.cls(f'{kind}:first={case["first"]}')
    ctx.count('abstract_states_' + kind, len(visited))
    ctx.sample({'model': kind, 'first_action': case['first'], 'frontier_sizes_per_depth': per_depth,
                'distinct_abstract_states': len(visited),
                'example_continuation': leaves[0] if leaves else None})
