"""C04 - PIT discrete cost equals the real cost of the network that export would produce.

Monitor: reference-model oracle.  R-cost recomputes params / params_no_bias / ops / ops_no_bias from
the plain nn.Conv/nn.Linear attributes and the observed output shapes of the *exported* network
(per call site for per-invocation metrics, per unique module for shared ones); for gap8_latency the
registered cost function is evaluated on the exported layers' own attributes.  At initialisation
(all masks open) continuous cost == discrete cost == cost of the original model.
"""
import random

import torch
import torch.nn as nn

from vf import pitlib
from vf.gen import pitgen
from vf.props import c01

ID = 'C04'
LEVEL = 'exploration'
RULE = ('cases = C01\'s random G-PIT programs and mask assignments (+ programs whose first layer '
        'is excluded from the search, + one layer invoked twice on inputs of equal / different '
        'size) x cost specification (each of params, params_no_bias, ops, ops_no_bias, '
        'gap8_latency[2D] alone, or all as a dictionary; in half of the cases re-assigned after the '
        'masks were pruned) x full_cost on/off, discrete_cost=True; '
        'plus the all-open initial state (continuous == discrete == original).  Non-trivial: at '
        'least one mask element pruned and the program contains a non-sequential construct '
        '(cat/add/flatten-with-spatial/depthwise/repeated layer/fixed layer) or a hardware spec; '
        'distinct = hash of (program, masks, spec mode, full_cost).')
ASSUMPTIONS = [
    'float32 cost values are compared with relative slack 1e-6 (integer products below 2^24 exact)',
    'gap8_latency reference = the registered GAP8 function of the seed layer kind applied to the '
    'exported layer attributes (consistency, not silicon accuracy; C16 judges the functions)',
    'with fold_bn the "original model" reference at initialisation is the network exported at '
    'initialisation (folding gives bias-free conv+BN pairs a bias)',
]
REQUIRED_MONITORS = ['c04.cost_vs_export', 'c04.init_cost', 'c04.params_numel']
MIN_NONTRIVIAL = {'quick': 100, 'thorough': 1500}
EXHAUSTIVE = {'quick': False, 'thorough': False}

GENERIC = ['params', 'params_no_bias', 'ops', 'ops_no_bias']


def cases(tier, seed):
    cs = []
    n = 420 if tier == 'quick' else 12000
    modes = ['binary', 'mixed', 'adversarial', 'binary', 'normal', 'allpruned', 'open']
    specs = ['dict', 'params', 'ops', 'dict', 'params_no_bias', 'ops_no_bias', 'gap8', 'dict']
    for i in range(n):
        fam = '1d' if i % 2 == 0 else '2d'
        spec = specs[(i // 2) % len(specs)]
        if spec == 'gap8' and fam == '1d':
            spec = 'dict'
        cs.append({'kind': 'random', 'prog_seed': seed * 1000003 + 500000 + i, 'family': fam,
                   'mask_mode': modes[i % len(modes)], 'fold': (i // 3) % 3 == 0,
                   'time_style': 'real' if i % 5 == 0 else 'binary', 'spec': spec,
                   'full_cost': (i // 4) % 2 == 1, 'seed': seed * 104729 + 77 + i})
    nr = 60 if tier == 'quick' else 1500
    for i in range(nr):
        cs.append({'kind': 'reuse', 'prog_seed': seed * 31 + i, 'family': '1d' if i % 2 else '2d',
                   'same': i % 4 < 2, 'mask_mode': modes[i % 3], 'spec': 'dict',
                   'fold': (i // 4) % 2 == 1,
                   'time_style': 'binary', 'full_cost': i % 3 == 0, 'seed': seed * 7 + i})
    # a layer invoked twice in two different width-sharing groups; pad modules per call site / shared
    for i, c in enumerate(pitgen.special_cases(32 if tier == 'quick' else 800, seed, {'kind': 'random'})):
        cs.append(dict(c, mask_mode=modes[i % 3], spec=['dict', 'ops', 'params'][(i // 2) % 3],
                       fold=(i // 4) % 2 == 1, time_style='binary', full_cost=i % 3 == 0))
    return cs


def worker_setup(ctx):
    from vf import neutral
    neutral.enable(ctx)      # neutral prefixes after conversion in half of the cases
    pass


def spec_objects(case, family):
    from plinio import cost as pc
    names = list(GENERIC) + (['gap8_latency'] if family == '2d' else [])
    if case['spec'] == 'dict':
        return {n: getattr(pc, n) for n in names}, names
    nm = 'gap8_latency' if case['spec'] == 'gap8' else case['spec']
    return getattr(pc, nm), [nm]


def gap8_reference(exported, xs, seed_kinds, only_names):
    """gap8_latency of the exported network: the function registered for the *seed* layer kind
    (depthwise / generic / linear) applied to each exported layer's own attributes."""
    import sys
    import plinio.cost  # noqa: F401
    g8 = sys.modules['plinio.cost.gap8_latency']   # the attribute of the package is the CostSpec
    calls, hooks = [], []
    for name, m in exported.named_modules():
        if isinstance(m, (nn.Conv2d, nn.Linear)):
            hooks.append(m.register_forward_hook(
                lambda mod, inp, out, name=name: calls.append((name, mod, tuple(out.shape)))))
    with torch.no_grad():
        exported(*xs)
    for h in hooks:
        h.remove()
    total, seen = 0.0, set()
    for name, m, shp in calls:
        if only_names is not None and name not in only_names:
            continue
        if name in seen:       # gap8_latency is a shared metric
            continue
        seen.add(name)
        spec = dict(vars(m))
        spec['output_shape'] = shp
        if isinstance(m, nn.Linear):
            spec['in_features'] = torch.tensor(float(m.in_features))
            spec['out_features'] = torch.tensor(float(m.out_features))
            total += float(g8._gap8_latency_linear(spec))
        else:
            spec['in_channels'] = torch.tensor(float(m.in_channels))
            spec['out_channels'] = torch.tensor(float(m.out_channels))
            fn = g8._gap8_latency_conv2d_dw if seed_kinds.get(name) == 'dw' \
                else g8._gap8_latency_conv2d_generic
            total += float(fn(spec))
    return total


def rel_ok(got, want, tol=1e-6):
    return abs(got - want) <= tol * max(1.0, abs(want))


def run_case(case, ctx):
    rng = random.Random(case['prog_seed'])
    if case.get('special'):
        prog = pitgen.special_program(rng, case['family'], case['special'], case.get('delay', 0))
    elif case['kind'] == 'reuse':
        prog = pitgen.reuse_program(rng, case['family'], case['same'],
                                    with_bn=case['seed'] % 2 == 0)
    else:
        prog = pitgen.gen_valid_program(rng, family=case['family'],
                                        opts={'p_fixed_stem': 0.3, 'allow_fixed': True,
                                              'hazards': ('add-of-cat', 'dw-after-cat',
                                                          'add-of-fixed', 'dw-after-fixed',
                                                          'excluded-consumer')})
    specs, names = spec_objects(case, prog['family'])
    # the pattern constraint is evaluated on the seed layer: groups == in == out (a 1->1 conv
    # with groups=1 satisfies it too)
    seed_kinds = {op['name']: ('dw' if (op.get('dw') or op['cin'] == op['cout'] == 1) else 'gen')
                  for op in prog['ops'] if op['op'] == 'conv'}
    try:
        model, pit, xs1 = pitlib.convert_pit(prog, case['seed'], fold_bn=case['fold'],
                                             discrete_cost=True, full_cost=case['full_cost'],
                                             cost=specs)
    except Exception as e:
        ctx.skip(type(e).__name__ + ': ' + str(e)[:80])
        return
    pit.eval()
    xs = pitgen.example_inputs(prog, 2, case['seed'] + 3)
    searchable = set(pit.summary().keys())

    def get(name):
        return float(pit.get_cost(name) if isinstance(specs, dict) else pit.cost)

    def reference(net, name, full):
        only = None if full else searchable
        if name == 'gap8_latency':
            return gap8_reference(net, xs, seed_kinds, only)
        return float(pitlib.net_cost(name, net, xs, only_names=only)[0])

    # ---- (1) initial state: continuous == discrete == original -------------------------------
    try:
        init_export = pit.export()
        init_export.eval()
    except Exception as e:
        ctx.violation('export-crash', {'sig': 'init:' + type(e).__name__, 'exc': repr(e)[:300],
                                       'features': prog['features'], 'traits': prog.get('traits')})
        return
    orig_ref_net = init_export if case['fold'] else model
    for name in names:
        try:
            d_cost = get(name)
            pit.discrete_cost = False
            c_cost = get(name)
            pit.discrete_cost = True
        except Exception as e:
            ctx.violation('cost-crash', {'sig': 'init:' + name + ':' + type(e).__name__,
                                         'exc': repr(e)[:300], 'features': prog['features'], 'traits': prog.get('traits')})
            pit.discrete_cost = True
            continue
        want = reference(orig_ref_net, name, case['full_cost'])
        ctx.mon('c04.init_cost')
        if not rel_ok(d_cost, want) or not rel_ok(c_cost, want, 1e-5):
            ctx.violation('init-cost', {'sig': name + ('-fold' if case['fold'] else ''),
                                        'metric': name, 'discrete': d_cost, 'continuous': c_cost,
                                        'original': want, 'full_cost': case['full_cost'],
                                        'features': prog['features'], 'traits': prog.get('traits')})

    # ---- (2) masked state: discrete cost == R-cost(export) -----------------------------------
    mrng = random.Random(case['seed'] + 5)
    assign = pitlib.apply_channel_masks(pit, mrng, case['mask_mode'])
    expect = c01.assign_time_masks(pit, mrng, case['time_style'])
    from vf import neutral
    neutral.maybe_freeze(pit, case['seed'])     # a frozen parameter group changes no cost
    if case['seed'] % 2 == 1:
        # the specification is (re-)assigned when the masks are already pruned: the cost functions
        # must still be the ones of the seed layer kinds (seeded defect C04-A)
        pit.cost_specification = specs
        ctx.cls('spec-reassigned-after-masks')
    try:
        exported = pit.export()
        exported.eval()
    except Exception as e:
        ctx.violation('export-crash', {'sig': type(e).__name__, 'exc': repr(e)[:300],
                                       'features': prog['features'], 'traits': prog.get('traits')})
        return
    for f in prog['features']:
        ctx.cls('feat:' + f)
    ctx.cls(f"spec:{case['spec']}-full{int(case['full_cost'])}")
    bad = False
    got_all = {}
    for name in names:
        try:
            got = get(name)
            want = reference(exported, name, case['full_cost'])
        except Exception as e:
            ctx.violation('cost-crash', {'sig': name + ':' + type(e).__name__,
                                         'exc': repr(e)[:300], 'features': prog['features'], 'traits': prog.get('traits')})
            continue
        got_all[name] = (got, want)
        ctx.mon('c04.cost_vs_export')
        if not rel_ok(got, want):
            bad = True
            ctx.violation('cost-vs-export', {'sig': name, 'metric': name, 'pit_cost': got,
                                             'exported_cost': want, 'full_cost': case['full_cost'],
                                             'summary': pit.summary(),
                                             'features': prog['features'], 'traits': prog.get('traits')})
        if name == 'params' and (case['full_cost'] or not prog.get('excluded')):
            ctx.mon('c04.params_numel')
            numel = pitlib.conv_linear_numel(exported)
            if not rel_ok(got, float(numel)):
                ctx.violation('params-numel', {'sig': 'params-vs-numel', 'pit_cost': got,
                                               'numel': numel, 'features': prog['features'], 'traits': prog.get('traits')})
    pruned = any(abs(v) <= 0.5 for a in assign for v in a['alpha'] if not a['frozen']) or \
        any(len(al) < max(al) + 1 for al, _ in expect.values())
    nonseq = set(prog['features']) & {'cat', 'add', 'flat-spatial', 'dw', 'reuse', 'fixed-stem',
                                      'tcat'}
    if pruned and (nonseq or 'gap8_latency' in names):
        ctx.nontriv(('c04', case['kind'], case['prog_seed'], case['family'], case['mask_mode'],
                     case['spec'], case['full_cost'], case['fold'], case['seed']))
    ctx.sample({'features': prog['features'], 'spec': case['spec'], 'full_cost': case['full_cost'],
                'fold_bn': case['fold'], 'mask_mode': case['mask_mode'],
                'cost_pit_vs_exported': got_all, 'summary': pit.summary()})
