"""C20 - precision refinement only promotes channels and never raises the cost.

Monitor: (1) direct + in-situ contract on the real _reassign_precisions (every column one-hot, every
row sum equal to its target), exhaustive on small score matrices; (2) end-to-end histories of
optimize_prec_assignment on per-channel MPS models with the NE16 cost: per-channel bit-widths from
summary() before/after, the channel counts the refinement chose (captured at the call boundary of
the reassignment step), get_cost('ne16') before/after.
"""
import contextlib
import io
import itertools
import random

import torch

from vf import mpslib

ID = 'C20'
LEVEL = 'exploration'
RULE = ('cases = (a) score matrices over the value grid {0.1,0.4,0.7,0.9} for 2..3 precisions x 1..4 '
        'channels in chunks of 4096 (all chunks when <= 12 (quick) / 400 (thorough) per size, '
        'i.e. complete up to 3x3 in thorough; sampled chunks beyond) with ALL '
        'compositions of the channel count as targets; (b) seeded random matrices up to 4 '
        'precisions x 8 channels with all / random compositions; (c) per-channel MPS models (3x3 / '
        '1x1 conv, depthwise 3x3, linear; 8-bit activations) with the NE16 cost specification and '
        'random coefficient matrices, refined by optimize_prec_assignment.  Non-trivial: a target '
        'vector different from the current arg-max counts (a) / a model in which the refinement '
        'changed at least one layer (c); distinct = hash of (scores, targets) / (model, coeffs).')
RULE += ('  Round 3: end-to-end cases with 33..72-channel layers; a wrapper on _compute_cost records every configuration the refinement evaluates and the applied one must be a cheapest of them.')
RULE += ('  Round 5: 0 bit at any position of the tuple; tile-edge cases (first layer 16m+p channels with p pruned before an expensive 3x3 layer); refinement called in train mode with soft sampling or with stale samples.')
ASSUMPTIONS = [
    'bit-widths before / after are read from summary() (arg-max of the raw coefficients)',
    'the counts "the refinement chose" are the targets handed to the reassignment step, observed '
    'by wrapping plinio.methods.mps.utils._reassign_precisions at its call boundary',
]
REQUIRED_MONITORS = ['c20.chosen_is_cheapest', 'c20.reassign_direct', 'c20.reassign_insitu', 'c20.e2e']
MIN_NONTRIVIAL = {'quick': 400, 'thorough': 2000}
EXHAUSTIVE = {'quick': False, 'thorough': False}
EXHAUSTIVE_NOTE = 'thorough: grid matrices up to 3x3 (and 2x4) with all compositions are complete; 3x4 is sampled'
GRID = (0.1, 0.4, 0.7, 0.9)


def compositions(n, k):
    if k == 1:
        yield (n,)
        return
    for i in range(n + 1):
        for rest in compositions(n - i, k - 1):
            yield (i,) + rest


def cases(tier, seed):
    cs = []
    # (a) exhaustive small grids, batched by (P, C, chunk) to keep cases coarse
    for P in (2, 3):
        for C in (1, 2, 3, 4):
            total = len(GRID) ** (P * C)
            nchunks = max(1, total // 4096)
            cap = 12 if tier == 'quick' else 400
            if nchunks > cap:
                chunks = random.Random(seed).sample(range(nchunks), cap)
            else:
                chunks = range(nchunks)
            for ch in chunks:
                cs.append({'kind': 'grid', 'P': P, 'C': C, 'chunk': ch, 'nchunks': nchunks})
    for i in range(40 if tier == 'quick' else 600):
        cs.append({'kind': 'random', 'seed': seed * 7919 + i, 'n': 200})
    for i in range(48 if tier == 'quick' else 600):
        cs.append({'kind': 'e2e', 'seed': seed * 104729 + i, 'zero': i % 3 == 2})
    # wide layers (33..72 channels): the NE16 model works on tiles of 16 / 32 channels, so only
    # these can make a multi-step promotion (two precisions gaining channels) the cheapest move
    for i in range(48 if tier == 'quick' else 400):
        cs.append({'kind': 'e2e', 'seed': seed * 15485863 + i, 'zero': i % 3 == 2, 'wide': True})
    for i in range(16 if tier == 'quick' else 200):
        cs.append({'kind': 'e2e', 'seed': seed * 32452843 + i, 'zero': True, 'wide': 'tile-edge'})
    # wide depthwise-separable stage: the convolution and the depthwise convolution behind it share
    # ONE weight quantizer (one set of per-channel coefficients for two layers)
    for i in range(12 if tier == 'quick' else 200):
        cs.append({'kind': 'e2e', 'seed': seed * 49979687 + i, 'zero': i % 3 == 2, 'wide': 'dwsep'})
    return cs


_rec = {'calls': []}


def oracle_reassign(ctx, best, scores, result, where):
    """column one-hot, row sums == targets; returns a witness dict when violated"""
    P, C = scores.shape
    cols = result.sum(dim=0)
    rows = result.sum(dim=1)
    onehot = bool(((result == 0) | (result == 1)).all()) and bool((cols == 1).all())
    met = [int(r) for r in rows.tolist()] == [int(b) for b in best.tolist()]
    if onehot and met:
        return None
    current = torch.argmax(scores, dim=0)
    order = torch.argsort(scores, dim=1, descending=True)
    # mechanism witness: some precision's top-`target` scoring channels include a channel that is
    # currently arg-max-assigned to another precision
    steals = []
    for p in range(P):
        t = int(best[p])
        top = order[p][:t].tolist()
        st = [c for c in top if int(current[c]) != p]
        if st:
            steals.append({'precision_row': p, 'target': t, 'stolen_channels': st})
    valid = all(float(b) >= 0 and float(b) == int(b) for b in best.tolist()) and \
        sum(int(b) for b in best.tolist()) == C
    from vf.findings import reassign_pinned_model
    try:
        pinned = reassign_pinned_model(best, scores)
        matches = bool(torch.equal(pinned, result))
    except Exception:
        matches = False
    ints = [int(b) for b in best.tolist()]
    return {'targets_valid': valid, 'matches_pinned_algorithm': matches,
            'targets_off_by_one_step': False,
            'sig': ('counts' if not met else 'column-not-one-hot') + ':' + where +
            ('' if valid else ':invalid-targets'),
            'scores': scores.tolist(), 'targets': [int(b) for b in best.tolist()],
            'result_row_sums': [int(r) for r in rows.tolist()],
            'result_col_sums': [int(c) for c in cols.tolist()],
            'current_argmax': current.tolist(), 'topk_steals': steals, 'where': where}


def worker_setup(ctx):
    from vf import neutral
    neutral.enable(ctx)      # neutral prefixes after conversion in half of the cases
    import plinio.methods.mps.utils as U
    orig = U._reassign_precisions

    def monitored(best, scores, *args, **kwargs):
        res = orig(best, scores, *args, **kwargs)
        ctx.mon('c20.reassign_insitu')
        w = oracle_reassign(ctx, best.detach().clone(), scores.detach().clone(),
                            res.detach().clone(), 'insitu')
        _rec['calls'].append({'best': [float(b) for b in best.tolist()],
                              'scores': scores.detach().clone(), 'result': res.detach().clone(),
                              'witness': w})
        return res
    U._reassign_precisions = monitored
    _rec['orig'] = orig
    # every configuration the refinement evaluates, with the cost its own cost model returned
    orig_cc = U._compute_cost

    def monitored_cc(model, layer, w_theta_alpha_array, cost_fn_map, lname, node):
        cost = orig_cc(model, layer, w_theta_alpha_array, cost_fn_map, lname, node)
        _rec.setdefault('evaluated', []).append(
            (lname, [float(x) for x in w_theta_alpha_array], float(cost)))
        return cost
    U._compute_cost = monitored_cc


def run_grid(case, ctx):
    P, C = case['P'], case['C']
    orig = _rec['orig']
    total = len(GRID) ** (P * C)
    lo = case['chunk'] * total // case['nchunks']
    hi = (case['chunk'] + 1) * total // case['nchunks']
    comps = list(compositions(C, P))
    nv = 0
    for idx in range(lo, hi):
        vals, r = [], idx
        for _ in range(P * C):
            vals.append(GRID[r % len(GRID)])
            r //= len(GRID)
        scores = torch.tensor(vals).reshape(P, C)
        cur = torch.argmax(scores, dim=0)
        cur_counts = tuple(int((cur == p).sum()) for p in range(P))
        for comp in comps:
            best = torch.tensor([float(x) for x in comp])
            res = orig(best, scores.clone())
            ctx.mon('c20.reassign_direct')
            w = oracle_reassign(ctx, best, scores, res, 'direct')
            if w is not None:
                nv += 1
                if nv <= 3:
                    ctx.violation('reassign-counts', w)
                else:
                    ctx.count('reassign_violations_not_listed_individually')
                    if not w['topk_steals'] or not w['matches_pinned_algorithm']:
                        ctx.violation('reassign-counts', w)
            if comp != cur_counts:
                ctx.count('grid_nontrivial')
    ctx.nontriv(('grid', P, C, case['chunk']))
    ctx.count('grid_matrices', hi - lo)
    ctx.cls(f'grid-{P}x{C}')
    if case['chunk'] == 0:
        ctx.sample({'kind': 'grid', 'P': P, 'C': C, 'matrices_in_chunk': hi - lo,
                    'compositions': len(comps)})


def run_random(case, ctx):
    rng = random.Random(case['seed'])
    g = torch.Generator().manual_seed(case['seed'] % (2 ** 31))
    orig = _rec['orig']
    for i in range(case['n']):
        P, C = rng.randint(2, 4), rng.randint(1, 8)
        scores = torch.rand((P, C), generator=g)
        if rng.random() < 0.3:
            scores = (scores * 4).round() / 4     # ties
        comp = rng.choice(list(compositions(C, P)))
        best = torch.tensor([float(x) for x in comp])
        res = orig(best, scores.clone())
        ctx.mon('c20.reassign_direct')
        w = oracle_reassign(ctx, best, scores, res, 'direct')
        if w is not None:
            ctx.violation('reassign-counts', w)
        cur = torch.argmax(scores, dim=0)
        if tuple(int((cur == p).sum()) for p in range(P)) != comp:
            ctx.nontriv(('rand', case['seed'], i))
    ctx.cls('random-matrices')


def ne16_program(rng, wide=False):
    """3x3 / 1x1 convs, depthwise 3x3, linear: the layer kinds the NE16 model covers"""
    from vf.gen import pitgen
    if wide:
        b = pitgen.Builder(rng, '2d', {'max_c': 72})
        c0 = rng.randint(1, 3)
        H = W = rng.randint(3, 5)
        b.shapes['x0'] = (c0, H, W)
        b.origin['x0'] = 'input'
        edge = wide == 'tile-edge'
        if wide == 'dwsep':
            t = b.conv('x0', cout=rng.randint(33, 72), k=rng.choice([1, 3]), d=1, s=1, pad='same')
            t = b.act(t, 'relu_mod')
            t = b.conv(t, dw=True, k=3, d=1, s=1, pad='same')
            t = b.act(t, 'relu_mod')
            t = b.conv(t, cout=rng.randint(8, 40), k=1, d=1, s=1, pad='same')
            t = b.act(t, 'relu_mod')
            t = b.flat(b.pool(t, 'aavg'))
            t = b.lin(t, fout=rng.randint(2, 4))
            return {'family': '2d', 'inputs': [[c0, H, W]], 'ops': b.ops, 'out': t, 'excluded': [],
                    'features': sorted(b.features) + ['wide', 'wide-dwsep'], 'traits': []}
        # 'tile-edge': the first layer is a few channels wider than a multiple of 16 (run_e2e prunes
        # exactly those), followed by an expensive 3x3 layer: one more alive channel in the first
        # layer costs a whole extra input tile in the second
        c1 = 16 * rng.randint(1, 3) + rng.randint(1, 3) if edge else rng.randint(33, 72)
        t = b.conv('x0', cout=c1, k=rng.choice([1, 3]), d=1, s=1, pad='same')
        t = b.act(t, 'relu_mod')
        if edge or rng.random() < 0.5:
            t = b.conv(t, cout=rng.randint(33, 72), k=3 if edge else rng.choice([1, 3]), d=1, s=1,
                       pad='same')
            t = b.act(t, 'relu_mod')
        t = b.flat(b.pool(t, 'aavg'))
        t = b.lin(t, fout=rng.randint(2, 4))
        return {'family': '2d', 'inputs': [[c0, H, W]], 'ops': b.ops, 'out': t, 'excluded': [],
                'features': sorted(b.features) + ['wide'], 'traits': []}
    for _ in range(50):
        b = pitgen.Builder(rng, '2d', {'max_c': 10})
        c0 = rng.randint(1, 3)
        H = W = rng.randint(4, 7)
        b.shapes['x0'] = (c0, H, W)
        b.origin['x0'] = 'input'
        t = 'x0'
        for _i in range(rng.randint(1, 3)):
            r = rng.random()
            if r < 0.6:
                t = b.conv(t, cout=rng.randint(2, 10), k=rng.choice([1, 3]), d=1, s=1, pad='same')
            elif r < 0.8 and b.origin[t] != 'input':
                t = b.conv(t, dw=True, k=3, d=1, s=1, pad='same')
            else:
                t = b.conv(t, cout=rng.randint(2, 10), k=3, d=1, s=1, pad='same')
            t = b.act(t, 'relu_mod')
        t = b.pool(t, 'aavg')
        t = b.flat(t)
        if rng.random() < 0.5:
            t = b.lin(t, fout=rng.randint(2, 9))
            t = b.act(t, 'relu_f')
        t = b.lin(t, fout=rng.randint(2, 4))
        return {'family': '2d', 'inputs': [[c0, H, W]], 'ops': b.ops, 'out': t, 'excluded': [],
                'features': sorted(b.features), 'traits': []}


def bits_of(summ):
    return {k: (list(v['w_precision']) if isinstance(v.get('w_precision'), list) else None)
            for k, v in summ.items()}


def run_e2e(case, ctx):
    from plinio.cost import ne16_latency
    from plinio.methods.mps.utils import optimize_prec_assignment
    rng = random.Random(case['seed'])
    prog = ne16_program(rng, wide=case.get('wide') or False)
    # (incl. orders whose sorting permutation is not its own inverse: (4, 8, 2), (8, 2, 4))
    w_prec = rng.choice([(2, 4, 8), (8, 4, 2), (4, 8), (2, 8), (4, 8, 2), (8, 2, 4), (8, 2)])
    if case['zero']:
        # the 0-bit (pruning) option at any position of the tuple
        pos = rng.randrange(1, len(w_prec) + 1) if case.get('wide') == 'tile-edge' else (
            rng.randrange(len(w_prec) + 1) if case['seed'] % 2 else 0)
        w_prec = tuple(w_prec[:pos]) + (0,) + tuple(w_prec[pos:])
    try:
        model, mps, xs = mpslib.convert_mps(prog, case['seed'], w_prec, (8,), per_channel=True,
                                            cost={'ne16': ne16_latency})
    except Exception as e:
        ctx.skip(type(e).__name__ + ': ' + str(e)[:80])
        return
    mps.eval()
    mpslib.assign_coefficients(mps, rng)
    if case.get('wide') and case['seed'] % 2 == 0:
        # skewed assignments (many channels at the low precisions, few at the top one): the shape
        # for which a promotion of two groups at once fills NE16 tiles exactly
        for kind, names, q in mpslib.unique_qtz(mps):
            if kind != 'w' or q.alpha.dim() != 2:
                continue
            precs = [int(p) for p in q.precision.tolist()]
            order = sorted(range(len(precs)), key=lambda i: precs[i])
            probs = {2: (0.7, 0.3), 3: (0.5, 0.35, 0.15), 4: (0.08, 0.45, 0.32, 0.15)}[len(precs)]
            with torch.no_grad():
                for c in range(q.alpha.shape[1]):
                    win = order[rng.choices(range(len(precs)), weights=probs)[0]]
                    q.alpha.data[:, c] = torch.tensor([rng.uniform(-1.0, 0.0) for _ in precs])
                    q.alpha.data[win, c] = rng.uniform(0.5, 1.5)
        ctx.cls('e2e-wide-skewed')
    if case.get('wide') == 'tile-edge':
        # prune exactly the channels above the multiple of 16 in the first layer
        first = next(op for op in prog['ops'] if op['op'] == 'conv')
        for kind, names, q in mpslib.unique_qtz(mps):
            if kind == 'w' and q.alpha.dim() == 2 and any(n.startswith(first['name'] + '.')
                                                          for n in names):
                precs = [int(p) for p in q.precision.tolist()]
                if 0 in precs:
                    zr = precs.index(0)
                    C = q.alpha.shape[1]
                    with torch.no_grad():
                        for c in range(C):
                            if c >= (C // 16) * 16:
                                q.alpha.data[:, c] = -1.0
                                q.alpha.data[zr, c] = 1.0
                            elif int(q.alpha.data[:, c].argmax()) == zr:
                                q.alpha.data[zr, c] = -2.0
        ctx.cls('e2e-tile-edge')
    # layers that share their weight quantizer (identity) with another layer
    owners = {}
    for lname, L in mpslib.mps_layers(mps):
        q = getattr(L, 'w_mps_quantizer', None)
        if q is not None:
            owners.setdefault(id(q), []).append(lname)
    shared_with = {n: [o for o in names_ if o != n] for names_ in owners.values() for n in names_}
    any_shared = any(shared_with.values())
    with torch.no_grad():
        mps(mps._input_example)
    before = bits_of(mps.summary())
    mps.update_softmax_options(hard=True)
    with torch.no_grad():
        mps(mps._input_example)
        cost_before = float(mps.get_cost('ne16'))
    if (case['seed'] // 5) % 3 == 0:
        # the stored samples do not match the coefficients when the refinement is called: the last
        # forward pass was a soft-sampling training forward, then the model was switched to eval
        mps.update_softmax_options(hard=False)
        mps.train()
        with torch.no_grad():
            mps(mps._input_example)
        mps.eval()
        ctx.cls('e2e-stale-samples-at-call')
    if (case['seed'] // 7) % 3 == 0:
        # the refinement is called on a model left in training mode with soft sampling (the state a
        # search loop leaves it in)
        mps.update_softmax_options(hard=False)
        mps.train()
        ctx.cls('e2e-called-in-train-mode-soft')
    _rec['calls'].clear()
    _rec['evaluated'] = []
    buf = io.StringIO()
    try:
        with contextlib.redirect_stdout(buf):
            optimize_prec_assignment(mps, 'ne16')
    except Exception as e:
        ctx.violation('refinement-crash', {'sig': type(e).__name__, 'exc': repr(e)[:300],
                                           'w_prec': w_prec, 'features': prog['features']})
        return
    ctx.mon('c20.e2e')
    with torch.no_grad():
        mps(mps._input_example)
        cost_after = float(mps.get_cost('ne16'))
    after = bits_of(mps.summary())
    calls = list(_rec['calls'])
    count_mismatch = [c['witness'] for c in calls if c['witness'] is not None]
    changed = False
    any_flags = []
    # per layer: promotion only, counts == chosen counts
    percall = iter(calls)
    precs = list(w_prec)
    for name, b in before.items():
        a = after.get(name)
        if b is None or a is None:
            continue
        if a != b:
            changed = True
        demoted = [(i, x, y) for i, (x, y) in enumerate(zip(b, a)) if y < x]
        # the counts the refinement chose for this layer (rows in the quantizer's precision order)
        layer = dict(mpslib.mps_layers(mps))[name]
        qprec = [int(p) for p in layer.w_mps_quantizer.precision.tolist()]
        call = next((c for c in calls if c['scores'].shape[1] == len(b) and
                     c.get('used') is None and len(c['best']) == len(qprec)), None)
        chosen = None
        flags = {'unsorted_precisions': qprec != sorted(qprec), 'precision_order': qprec,
                 'weight_quantizer_shared_with': shared_with.get(name, [])}
        if call is not None:
            call['used'] = name
            chosen = {p: int(round(x)) for p, x in zip(qprec, call['best'])}
            got = {p: sum(1 for y in a if y == p) for p in qprec}
            orig_counts = {p: sum(1 for x in b if x == p) for p in qprec}
            flags['targets_valid'] = all(v >= 0 for v in chosen.values()) and \
                sum(chosen.values()) == len(b)
            flags['reassign_count_mismatch'] = call['witness'] is not None
            from vf.findings import reassign_pinned_model
            try:
                flags['reassign_matches_pinned_algorithm'] = bool(torch.equal(
                    reassign_pinned_model(torch.tensor(call['best']), call['scores']),
                    call['result']))
            except Exception:
                flags['reassign_matches_pinned_algorithm'] = False
            # signature of the float-drift mechanism: every (i -> j) move of the count loop can take
            # one step too many, so entries go to -1 at worst, the total overshoots by at most one
            # per precision, and the 0-bit row (never touched by the loop) keeps its count
            cv = list(chosen.values())
            flags['zero_row_preserved'] = (0 not in chosen) or chosen[0] == orig_counts[0]
            flags['targets_off_by_one_step'] = (not flags['targets_valid']) and min(cv) >= -1 and \
                len(b) - len(cv) <= sum(cv) <= len(b) + len(cv) and flags['zero_row_preserved']
            call['flags'] = flags
            flags['chosen_is_promotion'] = all(
                sum(v for p, v in chosen.items() if p >= thr) >=
                sum(v for p, v in orig_counts.items() if p >= thr) for thr in set(qprec))
            # counts permuted by applying the sorting permutation twice (mechanism witness)
            order = sorted(range(len(qprec)), key=lambda i: qprec[i])
            oc = [orig_counts[p] for p in qprec]
            flags['chosen_is_sort_permutation_of_original'] = \
                [chosen[p] for p in qprec] == [oc[i] for i in order] and \
                [chosen[p] for p in qprec] != oc
            any_flags.append(flags)
            # "the counts the refinement chose": among all the configurations it evaluated for this
            # layer (the original one first), the one it applies is a cheapest one
            ev = {}
            for ln, fr, cst in _rec.get('evaluated', []):
                if ln != name or sum(fr) <= 0:
                    continue
                cnt = tuple(int(round(f * len(b) / sum(fr))) for f in fr)
                ev[cnt] = min(cst, ev.get(cnt, float('inf')))
            if ev and flags['targets_valid']:
                ctx.mon('c20.chosen_is_cheapest')
                ch = tuple(chosen[p] for p in qprec)
                cheapest = min(ev.values())
                if ch not in ev or ev[ch] > cheapest * (1 + 1e-6) + 1e-9:
                    ctx.violation('chosen-not-cheapest', dict(
                        flags, sig='chosen-not-cheapest', layer=name, chosen=chosen,
                        chosen_cost=ev.get(ch), cheapest_evaluated=cheapest,
                        cheapest_counts=[list(k) for k, v in ev.items() if v == cheapest][:2],
                        n_evaluated=len(ev)))
            if got != chosen:
                ctx.violation('layer-counts', dict(flags, sig='layer-counts', layer=name,
                                                   chosen=chosen, after=got))
            if not flags['chosen_is_promotion']:
                ctx.violation('chosen-counts-not-promotion', dict(
                    flags, sig='chosen-counts', layer=name, original=orig_counts, chosen=chosen))
        if demoted:
            ctx.violation('channel-demotion', dict(
                flags, sig='demotion', layer=name, before=b, after=a, demoted=demoted[:6],
                chosen_counts=chosen, by_reassignment_step=call is not None))
    for c in calls:
        if c['witness'] is not None:
            w = dict(c['witness'])
            fl = c.get('flags') or {}
            w['targets_off_by_one_step'] = bool(fl.get('targets_off_by_one_step'))
            w['zero_row_preserved'] = fl.get('zero_row_preserved')
            w['layer'] = c.get('used')
            ctx.violation('reassign-counts', w)
    if cost_after > cost_before * (1 + 1e-6):
        ctx.violation('cost-increase', {
            'sig': 'cost', 'before': cost_before, 'after': cost_after, 'w_prec': w_prec,
            'model_has_shared_weight_quantizer': any_shared,
            'reassign_count_mismatch_layers': len(count_mismatch),
            'layers_with_invalid_targets': sum(1 for f in any_flags if not f['targets_valid']),
            'layers_with_off_by_one_step_targets': sum(
                1 for f in any_flags if f.get('targets_off_by_one_step')),
            'all_reassign_calls_match_pinned_algorithm': all(
                f.get('reassign_matches_pinned_algorithm') for f in any_flags),
            'layers_with_permuted_counts': sum(
                1 for f in any_flags if f['chosen_is_sort_permutation_of_original'])})
    # ---- the refinement applied a second time to its own result: the same three claims hold for
    # that call, too (no channel below its bit-width before the call, cost not higher)
    if (case['seed'] // 2) % 2 == 0:
        _rec['calls'].clear()
        _rec['evaluated'] = []
        try:
            with contextlib.redirect_stdout(io.StringIO()):
                optimize_prec_assignment(mps, 'ne16')
        except Exception as e:
            ctx.violation('refinement-crash', {'sig': 'second-call:' + type(e).__name__,
                                               'exc': repr(e)[:300], 'w_prec': w_prec,
                                               'features': prog['features']})
            return
        ctx.mon('c20.second_call')
        with torch.no_grad():
            mps(mps._input_example)
            cost_again = float(mps.get_cost('ne16'))
        again = bits_of(mps.summary())
        for name, a in after.items():
            a2 = again.get(name)
            if a is None or a2 is None:
                continue
            dem = [(i, x, y) for i, (x, y) in enumerate(zip(a, a2)) if y < x]
            if dem:
                ctx.violation('channel-demotion', {'sig': 'demotion:second-call', 'layer': name,
                                                   'before': a, 'after': a2, 'demoted': dem[:6],
                                                   'weight_quantizer_shared_with':
                                                       shared_with.get(name, [])})
        if cost_again > cost_after * (1 + 1e-6):
            ctx.violation('cost-increase', {'sig': 'cost:second-call', 'before': cost_after,
                                            'after': cost_again, 'w_prec': w_prec,
                                            'model_has_shared_weight_quantizer': any_shared})
        for c in _rec['calls']:
            if c['witness'] is not None:
                ctx.violation('reassign-counts', dict(c['witness'], sig='counts:second-call'))
        ctx.cls('e2e-second-call' + ('-changed' if again != after else ''))
    if changed:
        ctx.nontriv(('e2e', case['seed']))
    ctx.cls('e2e-' + ('wide-' if case.get('wide') else '') + ('zero' if case['zero'] else 'nozero') +
            ('-changed' if changed else ''))
    ctx.sample({'kind': 'e2e', 'w_prec': w_prec, 'features': prog['features'],
                'cost_before': cost_before, 'cost_after': cost_after,
                'bits_before': {k: v for k, v in list(before.items())[:3]},
                'bits_after': {k: v for k, v in list(after.items())[:3]},
                'refinement_output': buf.getvalue()[-300:]})


def run_case(case, ctx):
    {'grid': run_grid, 'random': run_random, 'e2e': run_e2e}[case['kind']](case, ctx)
