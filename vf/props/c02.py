"""C02 - MPS export is bit-identical to the eval-mode mixed-precision model.

Monitor: bit-exact differential oracle (torch.equal) between MPS.eval()(x) and export().eval()(x),
precision attributes of the exported Quant* layers against summary() and against R-select (arg-max
of the raw coefficients the harness assigned), and the producer/consumer rule checked by an
independent backward walk over the exported fx graph.
"""
import math
import random

import torch
import torch.nn as nn

from vf import mpslib

ID = 'C02'
LEVEL = 'exploration'
RULE = ('cases = random G-MPS programs (Conv2d incl. depthwise, Linear, Conv-BN, Linear-BN, ReLU, '
        'pooling, flatten, residual add) x ordered precision tuples from {2,4,8} (all 15, for '
        'weights and for activations) x random coefficients with pairwise gaps >= 0.05 x '
        'temperature log-uniform in [0.05,20] x gumbel on/off x hard on/off, per-layer weight '
        'search, eval mode, 4 input batches each (in range, with negatives, above the clip, with '
        'spikes).  Non-trivial: at least one decision has >= 2 candidates and the selected '
        'assignment is not the initial one (highest precision everywhere); distinct = hash of '
        '(program, tuples, coefficients).')
RULE += ('  Round 2/3: summary() is read before the first forward, after it and after export(); Conv2d with reflect / replicate / circular padding; Conv1d networks (a fifth of the programs); a convolution re-used on a tensor and on its pooled version.')
RULE += ('  Round 4: PACT clipping thresholds moved (x0.5..1.5) in half of the cases; a second coefficient draw with moved biases / weights on the same eval-mode wrapper, exported and compared again.')
RULE += ("  Round 5: per-axis conv geometry incl. padding='same' with an even kernel side; the same residual sum taken twice.")
ASSUMPTIONS = [
    'both sides run the same PyTorch kernels on the same shapes with one thread (bit-exact '
    'comparison is meaningful); 0*q_i + 1*q_j is exact for finite q (finiteness is asserted)',
    'per-channel export is documented as unsupported (README) and is not driven here',
]
REQUIRED_MONITORS = ['c02.bit_exact', 'c02.precisions', 'c02.producer_consumer', 'c02.r_select']
MIN_NONTRIVIAL = {'quick': 150, 'thorough': 3000}
EXHAUSTIVE = {'quick': False, 'thorough': False}


def cases(tier, seed):
    n = 420 if tier == 'quick' else 20000
    cs = []
    for i in range(n):
        cs.append({'prog_seed': seed * 1000003 + i, 'seed': seed * 104729 + i,
                   'w_prec': list(mpslib.PRECISION_TUPLES[i % 15]),
                   'a_prec': list(mpslib.PRECISION_TUPLES[(i // 15 + i) % 15]),
                   'gumbel': (i // 2) % 2 == 1, 'hard': (i // 4) % 2 == 1,
                   'log_temp': (i * 0.618034) % 1.0})
    return cs


def worker_setup(ctx):
    from vf import neutral
    neutral.enable(ctx)      # neutral prefixes after conversion in half of the cases
    pass


def quant_modules(exported):
    from plinio.methods.mps.quant.nn import QuantConv1d, QuantConv2d, QuantLinear, QuantIdentity
    out = {}
    for n, m in exported.named_modules():
        if isinstance(m, (QuantConv1d, QuantConv2d, QuantLinear, QuantIdentity)):
            out[n] = m
    return out


def producers_of(node, qmods, seen=None):
    """nearest quantizing modules upstream of `node` (backward walk through non-quantized ops)"""
    seen = seen if seen is not None else set()
    res = []
    for p in node.all_input_nodes:
        if p in seen:
            continue
        seen.add(p)
        if p.op == 'call_module' and str(p.target) in qmods:
            res.append(str(p.target))
        else:
            res.extend(producers_of(p, qmods, seen))
    return res


def qprec(q):
    try:
        return int(q.precision)
    except Exception:
        return None


def run_case(case, ctx):
    from plinio.methods.mps.quant.nn import QuantIdentity
    rng = random.Random(case['prog_seed'])
    prog = mpslib.gen_mps_program(rng, allow_reuse=True,
                                  family='1d' if case['prog_seed'] % 5 == 4 else '2d')
    temp = 10 ** (math.log10(0.05) + case['log_temp'] * (math.log10(20) - math.log10(0.05)))
    try:
        model, mps, xs = mpslib.convert_mps(prog, case['seed'], case['w_prec'], case['a_prec'],
                                            temperature=temp, gumbel=case['gumbel'],
                                            hard=case['hard'])
    except Exception as e:
        ctx.skip(type(e).__name__ + ': ' + str(e)[:80])
        return
    mps.eval()
    arng = random.Random(case['seed'] + 3)
    if (case['seed'] // 2) % 2 == 1:
        # clipping thresholds away from their initial value, as after training
        mpslib.perturb_parameters(mps, arng, weights=False)
        ctx.cls('clip-values-moved')
    # the property is about the model object, not about a fresh one: in every other case the same
    # eval-mode wrapper is given a second set of coefficients (and moved biases / clipping
    # thresholds) after the first export, with no training-mode forward pass in between
    n_draws = 2 if case['seed'] % 2 == 1 else 1
    for draw in range(n_draws):
        if draw == 1:
            ctx.cls('second-draw-on-the-same-wrapper')
            mpslib.perturb_parameters(mps, arng)
        if _one_draw(case, ctx, prog, mps, arng, temp, draw) is None:
            return


def _one_draw(case, ctx, prog, mps, arng, temp, draw):
    from plinio.methods.mps.quant.nn import QuantIdentity
    assign = mpslib.assign_coefficients(mps, arng)
    for f in prog['features']:
        ctx.cls('feat:' + f)
    ctx.cls(f"w{len(case['w_prec'])}-a{len(case['a_prec'])}" + ('-gumbel' if case['gumbel'] else '')
            + ('-hard' if case['hard'] else ''))
    batches = {k: mpslib.in_range_inputs(prog, case['seed'], 3, k)
               for k in ('in', 'neg', 'above', 'spikes')}
    # summary() is a function of the coefficients, not of the last sample: it is also read before
    # any forward pass has re-sampled them (coefficients just assigned / loaded) ...
    summaries = {'before-forward': mps.summary()}
    ys = {}
    with torch.no_grad():
        for k, x in batches.items():
            try:
                ys[k] = mps(x)
            except Exception as e:
                ctx.violation('mps-forward-crash', {'sig': type(e).__name__, 'exc': repr(e)[:300]})
                return
    summ = mps.summary()
    summaries['after-forward'] = summ
    try:
        exported = mps.export()
        exported.eval()
        # ... and after export(), which restores the pre-export sample
        summaries['after-export'] = mps.summary()
    except Exception as e:
        ctx.violation('export-crash', {'sig': type(e).__name__, 'exc': repr(e)[:300],
                                       'features': prog['features']})
        return
    # ---- bit-exact outputs ---------------------------------------------------------------------
    with torch.no_grad():
        for k, x in batches.items():
            try:
                ye = exported(x)
            except Exception as e:
                ctx.violation('exported-forward-crash', {'sig': type(e).__name__,
                                                         'exc': repr(e)[:300]})
                return
            ctx.mon('c02.bit_exact')
            if not bool(torch.isfinite(ys[k]).all()):
                ctx.violation('nonfinite-output', {'sig': 'mps-nonfinite', 'batch': k})
            if not torch.equal(ys[k], ye):
                ctx.violation('output-not-bit-identical', {
                    'sig': 'bitexact', 'batch': k,
                    'max_abs_diff': float((ys[k] - ye).abs().max()) if ys[k].shape == ye.shape
                    else 'shape', 'w_prec': case['w_prec'], 'a_prec': case['a_prec'],
                    'temperature': temp, 'gumbel': case['gumbel'], 'hard': case['hard'],
                    'features': prog['features']})
    # ---- precisions: exported vs summary vs R-select -------------------------------------------
    qmods = quant_modules(exported)
    by_owner = {}
    for a in assign:
        for nm in a['names']:
            by_owner[nm] = a
    layers = dict(mpslib.mps_layers(mps))
    for name, s in summ.items():
        e = qmods.get(name)
        ctx.mon('c02.precisions')
        if e is None:
            ctx.violation('precisions', {'sig': 'layer-not-exported', 'layer': name})
            continue
        got = {}
        if isinstance(e, QuantIdentity):
            got['out_precision'] = qprec(e.out_quantizer) if hasattr(e, 'out_quantizer') else \
                qprec(getattr(e, 'qtz_func', None))
        else:
            got = {'in_precision': qprec(e.in_quantizer), 'w_precision': qprec(e.w_quantizer),
                   'out_precision': qprec(e.out_quantizer)}
        for k, v in got.items():
            if k in s and s[k] != v and not (s[k] == -1 and v in (None, -1)):
                ctx.violation('precisions', {'sig': 'exported-vs-summary:' + k, 'layer': name,
                                             'summary': {kk: vv for kk, vv in s.items()},
                                             'exported': got})
        # R-select: the summary must name the arg-max of the raw coefficients, whenever it is read
        for when, sm in summaries.items():
            s2 = sm.get(name, {})
            for attr, key in (('out_mps_quantizer', 'out_precision'),
                              ('w_mps_quantizer', 'w_precision'),
                              ('in_mps_quantizer', 'in_precision')):
                a = by_owner.get(name + '.' + attr)
                if a is None or key not in s2:
                    continue
                ctx.mon('c02.r_select')
                want = a['precision'][a['argmax']]
                if s2[key] != want:
                    ctx.violation('r-select', {'sig': key + ':' + when, 'layer': name,
                                               'summary': s2[key], 'argmax_precision': want,
                                               'alpha': a['alpha'], 'precisions': a['precision']})
    # ---- producer / consumer rule on the exported graph ----------------------------------------
    for node in exported.graph.nodes:
        if node.op != 'call_module' or str(node.target) not in qmods:
            continue
        e = qmods[str(node.target)]
        if isinstance(e, QuantIdentity):
            continue
        prods = producers_of(node, qmods)
        if not prods:
            continue
        ctx.mon('c02.producer_consumer')
        pp = []
        for p in prods:
            pm = qmods[p]
            pp.append(qprec(pm.out_quantizer))
        if any(x != qprec(e.in_quantizer) for x in pp):
            ctx.violation('producer-consumer', {'sig': 'in-precision', 'layer': str(node.target),
                                                'in_precision': qprec(e.in_quantizer),
                                                'producers': dict(zip(prods, pp))})
    multi = any(len(a['precision']) >= 2 for a in assign)
    not_initial = any(a['precision'][a['argmax']] != max(a['precision']) for a in assign
                      if isinstance(a['argmax'], int))
    if multi and not_initial:
        ctx.nontriv((case['prog_seed'], tuple(case['w_prec']), tuple(case['a_prec']), case['seed'],
                     draw))
    ctx.sample({'features': prog['features'], 'w_prec': case['w_prec'], 'a_prec': case['a_prec'],
                'temperature': round(temp, 4), 'gumbel': case['gumbel'], 'hard': case['hard'],
                'summary': {k: {kk: vv for kk, vv in v.items()} for k, v in list(summ.items())[:5]}})
    return True
