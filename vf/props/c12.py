"""C12 - cost is a differentiable, monotone function of the architecture only.

Monitor: per (model, cost spec) a battery of oracles on the real cost: evaluates / finite / >= 0;
bit-equal after replacing every network weight by noise and after forwards on other data;
autograd.grad finite, non-zero exactly where a +1e-3 finite difference raises the cost, and no
gradient to network weights; monotone under component-wise ordered PIT mask vectors (continuous
and discrete); fully open masks give the cost of the original model.
"""
import math
import random

import torch
import torch.nn as nn

from vf import pitlib, mpslib, snlib
from vf.gen import pitgen
from vf.props import c04

ID = 'C12'
LEVEL = 'exploration'
RULE = ('cases = random G-PIT programs x {params, params_no_bias, ops, ops_no_bias, gap8_latency '
        '[2D]} (single and dictionary) x 8 ordered pairs of mask vectors each (continuous and '
        'discrete cost); G-SN networks x {params, ops, no-bias variants} x soft/hard/gumbel; G-MPS '
        'programs x {params_bit, ops_bit, mpic_latency, ne16_latency with 8-bit activations} x '
        'per-layer / per-channel (+0 bit); ODiMO_MPS with its defaults (diana_latency, w in {2,8}, '
        'a = 8, parallel-accelerator reduction).  Non-trivial: the cost has a non-zero gradient '
        'w.r.t. at least one architectural parameter; distinct = hash of (model, spec, values).')
RULE += ('  Round 2: SuperNet metrics queried as entries of a dictionary specification after another entry, compared with a twin whose only specification is that metric.')
RULE += ('  Round 4: a hidden MPS layer pruned away completely (every channel at 0 bit, saturated).')
ASSUMPTIONS = [
    '"whose increase raises the metric" is decided operationally: +1e-3 on one element raises the '
    'cost by more than 1e-6 relative (keep-alive elements, exact zeros of abs() and elements '
    'hidden behind a binariser plateau are thereby excluded)',
    'independence is judged bit-exactly; monotonicity with slack 1e-6*cost',
    'ODiMO / NE16 / DIANA are driven only at the precisions they declare',
]
REQUIRED_MONITORS = ['c12.evaluates', 'c12.independence', 'c12.gradients', 'c12.monotone',
                     'c12.fully_open', 'c12.odimo', 'c12.spec_form']
MIN_NONTRIVIAL = {'quick': 150, 'thorough': 2500}
EXHAUSTIVE = {'quick': False, 'thorough': False}


def cases(tier, seed):
    cs = []
    n = 200 if tier == 'quick' else 7000
    for i in range(n):
        fam = '1d' if i % 2 == 0 else '2d'
        spec = ['dict', 'params', 'ops', 'params_no_bias', 'ops_no_bias', 'gap8'][(i // 2) % 6]
        if spec == 'gap8' and fam == '1d':
            spec = 'dict'
        cs.append({'kind': 'pit', 'prog_seed': seed * 1000003 + 90000 + i, 'family': fam,
                   'spec': spec, 'fold': i % 5 == 0, 'seed': seed * 7919 + i})
    # a searchable layer invoked twice (equal / different resolution): per-invocation metrics must
    # charge every call site, shared ones the layer once
    for i in range(36 if tier == 'quick' else 800):
        spec = ['ops_no_bias', 'dict', 'ops', 'params_no_bias', 'params', 'gap8'][i % 6]
        fam = '1d' if (i // 6) % 2 == 0 else '2d'
        if spec == 'gap8' and fam == '1d':
            spec = 'ops_no_bias'
        cs.append({'kind': 'pit', 'reuse': {'same': (i // 3) % 2 == 0, 'with_bn': (i // 12) % 2 == 1},
                   'prog_seed': seed * 1000003 + 94000 + i, 'family': fam, 'spec': spec,
                   'fold': (i // 2) % 3 == 0, 'seed': seed * 7723 + i})
    for i in range(80 if tier == 'quick' else 1200):
        cs.append({'kind': 'mps', 'prog_seed': seed * 1000003 + 91000 + i,
                   'mode': ['layer', 'channel', 'channel0'][i % 3],
                   'spec': ['params_bit', 'ops_bit', 'mpic_latency', 'ne16_latency'][(i // 3) % 4],
                   'train': (i // 2) % 2 == 0, 'seed': seed * 31 + i})
    for i in range(60 if tier == 'quick' else 900):
        cs.append({'kind': 'sn', 'net_seed': seed * 1000003 + 92000 + i,
                   'spec': ['params', 'ops', 'params_no_bias', 'ops_no_bias'][i % 4],
                   'mode': ['soft', 'hard', 'gumbel'][(i // 4) % 3], 'seed': seed * 37 + i,
                   # the metric is one entry of a dictionary specification, queried after another
                   'dictspec': (i // 12) % 2 == 1,
                   # the fixed layers outside the choice blocks are charged, too
                   'full_cost': (i // 5) % 3 == 1})
    for i in range(24 if tier == 'quick' else 300):
        cs.append({'kind': 'odimo', 'prog_seed': seed * 1000003 + 93000 + i, 'seed': seed * 41 + i})
    # the repository's own tests under the in-situ "every model cost is finite and non-negative" contract
    from vf import suitewl
    cs += suitewl.cases(tier, select=('test_methods/',),
                        slow_in_quick=('test_pit_search.py::TestPITSearch::test_regularization_loss_descent',
                                       'test_regularization_loss_descent_channel'))
    return cs


def worker_setup(ctx):
    from vf import neutral
    neutral.enable(ctx)      # neutral prefixes after conversion in half of the cases
    pass


def noise_weights(nas):
    g = torch.Generator().manual_seed(99)
    nas_ids = {id(p) for p in nas.nas_parameters()}
    with torch.no_grad():
        for p in nas.parameters():
            if id(p) not in nas_ids:
                p.data.copy_(torch.randn(p.shape, generator=g) * 3.0)


def check_basic(ctx, nas, names, get, tag, detail):
    vals = {}
    for nm in names:
        try:
            c = get(nm)
        except Exception as e:
            ctx.violation('cost-crash', dict(detail, sig=f'{tag}:{nm}:{type(e).__name__}',
                                             exc=repr(e)[:300]))
            continue
        ctx.mon('c12.evaluates')
        v = float(c)
        if not math.isfinite(v) or v < 0:
            ctx.violation('finite-nonneg', dict(detail, sig=f'{tag}:{nm}', value=v))
        vals[nm] = c
    return vals


def check_gradients(ctx, nas, cost_fn, tag, detail, fd_elements=12, rng=None, param_info=None):
    """autograd vs finite differences on the architectural parameters; nothing to the weights"""
    nas_params = [p for p in nas.nas_parameters() if p.requires_grad]
    net_params = [p for p in nas.net_parameters() if p.requires_grad]
    c = cost_fn()
    if not isinstance(c, torch.Tensor) or not c.requires_grad:
        if nas_params:
            ctx.violation('gradients', dict(detail, sig=f'{tag}:cost-not-differentiable'))
        return False
    gn = torch.autograd.grad(c, nas_params, allow_unused=True, retain_graph=True)
    gw = torch.autograd.grad(c, net_params, allow_unused=True) if net_params else []
    ctx.mon('c12.gradients')
    for p, g in zip(net_params, gw):
        if g is not None and bool((g != 0).any()):
            ctx.violation('gradients', dict(detail, sig=f'{tag}:gradient-to-network-weights'))
            break
    any_nonzero = False
    for p, g in zip(nas_params, gn):
        if g is not None and not bool(torch.isfinite(g).all()):
            ctx.violation('gradients', dict(detail, sig=f'{tag}:non-finite-gradient'))
            return False
        if g is not None and bool((g != 0).any()):
            any_nonzero = True
    # finite differences on a sample of elements
    rng = rng or random.Random(0)
    elems = [(pi, ei) for pi, p in enumerate(nas_params) for ei in range(p.numel())]
    rng.shuffle(elems)
    base = float(c)
    for pi, ei in elems[:fd_elements]:
        p = nas_params[pi]
        with torch.no_grad():
            old = float(p.data.flatten()[ei])
            p.data.view(-1)[ei] = old + 1e-3
        try:
            c2 = float(cost_fn())
        finally:
            with torch.no_grad():
                p.data.view(-1)[ei] = old
        g = gn[pi]
        gv = 0.0 if g is None else float(g.flatten()[ei])
        raises = (c2 - base) > 1e-6 * max(1.0, abs(base))
        ctx.count('fd_elements')
        if raises and gv == 0.0:
            ctx.violation('gradients', dict(detail, sig=f'{tag}:zero-gradient-where-cost-rises',
                                            param_index=pi, element=ei, value=old,
                                            cost=base, cost_plus=c2,
                                            param_owner=param_info(p) if param_info else None))
            break
    return any_nonzero


def run_pit(case, ctx):
    from plinio import cost as pc
    rng = random.Random(case['prog_seed'])
    if case.get('reuse'):
        prog = pitgen.reuse_program(rng, case['family'], case['reuse']['same'],
                                    case['reuse']['with_bn'])
    else:
        prog = pitgen.gen_valid_program(rng, family=case['family'], opts={'p_fixed_stem': 0.2,
                                                                          'allow_fixed': True})
    specs, names = c04.spec_objects({'spec': case['spec']}, prog['family'])
    try:
        model, pit, _ = pitlib.convert_pit(prog, case['seed'], fold_bn=case['fold'], cost=specs,
                                           train_mode=True)
    except Exception as e:
        ctx.skip(type(e).__name__ + ': ' + str(e)[:80])
        return
    detail = {'features': prog['features'], 'spec': case['spec'], 'fold': case['fold']}

    def get(nm):
        return pit.get_cost(nm) if isinstance(specs, dict) else pit.cost
    xs = pitgen.example_inputs(prog, 2, case['seed'] + 1)
    mrng = random.Random(case['seed'] + 5)
    for f in prog['features']:
        ctx.cls('pit-feat:' + f)
    ctx.cls('pit-spec:' + case['spec'])
    # ---- fully open == original ----------------------------------------------------------------
    seed_kinds = {op['name']: ('dw' if (op.get('dw') or op['cin'] == op['cout'] == 1) else 'gen')
                  for op in prog['ops'] if op['op'] == 'conv'}
    searchable = set(pit.summary().keys())
    try:
        ref_net = pit.export() if case['fold'] else model
        ref_net.eval()
        for disc in (False, True):
            pit.discrete_cost = disc
            for nm in names:
                want = c04.gap8_reference(ref_net, xs, seed_kinds, searchable) \
                    if nm == 'gap8_latency' else \
                    float(pitlib.net_cost(nm, ref_net, xs, only_names=searchable)[0])
                got = float(get(nm))
                ctx.mon('c12.fully_open')
                if abs(got - want) > 1e-5 * max(1.0, abs(want)):
                    ctx.violation('fully-open', dict(detail, sig=f'{nm}:disc{int(disc)}',
                                                     cost=got, original=want))
    except Exception as e:
        ctx.violation('cost-crash', dict(detail, sig='fully-open:' + type(e).__name__,
                                         exc=repr(e)[:300]))
    pit.train()
    # ---- random masks: basic, independence, gradients -------------------------------------------
    feats, times, dils = pitlib.unique_maskers(pit)
    maskers = [m for _, m in feats + times + dils if not pitlib.is_frozen(m)]

    def draw():
        return [[abs(mrng.gauss(0.6, 0.5)) * mrng.choice([1, 1, -1])
                 for _ in range(pitlib.mask_tensor(m).numel())] for m in maskers]

    def assign(vals):
        for m, v in zip(maskers, vals):
            pitlib.set_mask(m, v)
    nontriv = False
    for disc in (False, True):
        pit.discrete_cost = disc
        assign(draw())
        vals = check_basic(ctx, pit, names, get, f'pit-disc{int(disc)}', detail)
        before = {nm: float(v) for nm, v in vals.items()}
        with torch.no_grad():
            pit(*xs)
            pit(*pitgen.example_inputs(prog, 3, case['seed'] + 77, scale=4.0))
        saved = {id(p): p.detach().clone() for p in pit.parameters()}
        noise_weights(pit)
        ctx.mon('c12.independence')
        for nm in vals:
            after = float(get(nm))
            if after != before[nm]:
                ctx.violation('independence', dict(detail, sig=f'pit:{nm}:disc{int(disc)}',
                                                   before=before[nm], after=after))
        with torch.no_grad():
            for p in pit.parameters():
                p.data.copy_(saved[id(p)])
        for nm in names[:2]:
            if check_gradients(ctx, pit, lambda nm=nm: get(nm), f'pit:{nm}:disc{int(disc)}',
                               detail, rng=mrng):
                nontriv = True
    # ---- monotonicity under component-wise ordered mask vectors -----------------------------------
    for _ in range(8):
        a = draw()
        b = [[v * (1 + mrng.choice([0.0, 0.0, 0.3, 1.0, 5.0])) * mrng.choice([1, -1]) for v in vec]
             for vec in a]
        for disc in (False, True):
            pit.discrete_cost = disc
            assign(a)
            ca = {nm: float(get(nm)) for nm in names}
            assign(b)
            cb = {nm: float(get(nm)) for nm in names}
            ctx.mon('c12.monotone')
            for nm in names:
                if ca[nm] > cb[nm] + 1e-6 * max(1.0, abs(cb[nm])):
                    ctx.violation('monotone', dict(detail, sig=f'{nm}:disc{int(disc)}',
                                                   cost_smaller_masks=ca[nm],
                                                   cost_larger_masks=cb[nm],
                                                   masks_small=a, masks_large=b))
    # ---- the cost depends on the architecture only: re-assigning the specification while the masks
    # are pruned and then re-opening every mask must give the cost of the original model again ----
    try:
        assign(draw())
        pit.cost_specification = specs
        assign([[1.0] * len(v) for v in draw()])
        for disc in (False, True):
            pit.discrete_cost = disc
            for nm in names:
                want = c04.gap8_reference(ref_net, xs, seed_kinds, searchable) \
                    if nm == 'gap8_latency' else \
                    float(pitlib.net_cost(nm, ref_net, xs, only_names=searchable)[0])
                got = float(get(nm))
                ctx.mon('c12.fully_open')
                if abs(got - want) > 1e-5 * max(1.0, abs(want)):
                    ctx.violation('fully-open', dict(
                        detail, sig=f'{nm}:disc{int(disc)}:after-spec-reassignment', cost=got,
                        original=want))
    except Exception as e:
        ctx.violation('cost-crash', dict(detail, sig='reassign:' + type(e).__name__,
                                         exc=repr(e)[:300]))
    if nontriv:
        ctx.nontriv(('pit', case['prog_seed'], case['family'], case['spec'], case['fold']))
    ctx.sample({'kind': 'pit', 'features': prog['features'], 'spec': case['spec'],
                'n_maskers': len(maskers)})


def run_mps(case, ctx, odimo=False):
    from plinio import cost as pc
    rng = random.Random(case['prog_seed'])
    if odimo or case.get('spec') == 'ne16_latency':
        from vf.props.c20 import ne16_program
        prog = ne16_program(rng)
        if odimo:   # DIANA covers plain (non-depthwise) conv and linear on the analog core
            for _ in range(30):
                if not any(op.get('dw') for op in prog['ops']):
                    break
                prog = ne16_program(rng)
    else:
        prog = mpslib.gen_mps_program(rng, small=True)
    detail = {'features': prog['features'], 'spec': case.get('spec', 'diana_latency'),
              'mode': case.get('mode', 'odimo')}
    try:
        if odimo:
            from plinio.methods.odimo_mps import ODiMO_MPS
            from plinio.methods.odimo_mps.odimo_mps import get_default_qinfo
            model = pitgen.build(prog, case['seed'])
            model.train()
            x0 = pitgen.example_inputs(prog, 1, case['seed'])[0].abs().clamp(max=1.0)
            nas = ODiMO_MPS(model, input_example=x0,
                            qinfo=get_default_qinfo(w_precision=(2, 8), a_precision=(8,)))
            names = [None]
        else:
            mode = case['mode']
            w = {'layer': (2, 4, 8), 'channel': (2, 4, 8), 'channel0': (0, 2, 4, 8)}[mode]
            a = (8,) if case['spec'] == 'ne16_latency' else (2, 4, 8)
            model, nas, xs = mpslib.convert_mps(prog, case['seed'], w, a,
                                                per_channel=mode != 'layer',
                                                cost={case['spec']: getattr(pc, case['spec'])},
                                                train_mode=case['train'])
            names = [case['spec']]
    except Exception as e:
        if odimo:
            ctx.violation('cost-crash', dict(detail, sig='odimo-construct:' + type(e).__name__,
                                             exc=repr(e)[:300]))
        else:
            ctx.skip(type(e).__name__ + ': ' + str(e)[:80])
        return
    mpslib.assign_coefficients(nas, rng)
    if not odimo and case['mode'] == 'channel0' and (case['seed'] // 3) % 2 == 0:
        # a hidden layer pruned away completely (every channel selects 0 bit, saturated so that the
        # effective width is exactly zero in train mode, too): cost and gradients stay finite
        cands = [(q, names_) for kind, names_, q in mpslib.unique_qtz(nas)
                 if kind == 'w' and q.alpha.dim() == 2 and 0 in [int(p) for p in q.precision.tolist()]]
        # (every layer type has its own copy of the cost code: hidden Linear layers are preferred
        # half of the time, they are rarer than convolutions in the grammar)
        lin = [c for c in cands if any(n.startswith(('fc', 'lin')) for n in c[1])]
        if lin and rng.random() < 0.6:
            cands = lin
        if cands:
            q = rng.choice(cands)[0]
            zero_row = [int(p) for p in q.precision.tolist()].index(0)
            with torch.no_grad():
                q.alpha.data.copy_(-50.0 + 0.1 * torch.rand(q.alpha.shape))
                q.alpha.data[zero_row] = 50.0
            ctx.cls('mps:hidden-layer-fully-pruned')
            detail['fully_pruned_layer'] = True
    x = mpslib.in_range_inputs(prog, case['seed'], 2)

    def get(nm):
        return nas.cost if nm is None else nas.get_cost(nm)

    def fresh_cost(nm=names[0]):
        nas(x)       # re-sample the coefficients from the (perturbed) raw parameters
        return get(nm)
    try:
        nas(x)
    except Exception as e:
        ctx.violation('cost-crash', dict(detail, sig='forward:' + type(e).__name__,
                                         exc=repr(e)[:300]))
        return
    tag = 'odimo' if odimo else 'mps:' + case['mode']
    vals = check_basic(ctx, nas, names, get, tag, detail)
    if odimo:
        ctx.mon('c12.odimo')
    if not vals:
        return
    before = {nm: float(v) for nm, v in vals.items()}
    saved = {id(p): p.detach().clone() for p in nas.parameters()}
    noise_weights(nas)
    with torch.no_grad():
        nas(mpslib.in_range_inputs(prog, case['seed'] + 9, 3, 'spikes'))
    ctx.mon('c12.independence')
    for nm in vals:
        after = float(get(nm))
        if after != before[nm]:
            ctx.violation('independence', dict(detail, sig=f'{tag}:{nm}', before=before[nm],
                                               after=after))
    with torch.no_grad():
        for p in nas.parameters():
            p.data.copy_(saved[id(p)])
    def param_info(p):
        # which layers own this coefficient tensor, and how many effective input features they see
        # (mechanism witness for the known finding mps-consumer-cost-detached-from-producer)
        out = []
        for lname, layer in mpslib.mps_layers(nas):
            q = getattr(layer, 'w_mps_quantizer', None)
            if q is not None and getattr(q, 'alpha', None) is p:
                try:
                    fin = float(layer.input_features_calculator.features)
                except Exception:
                    fin = None
                out.append({'layer': lname, 'effective_input_features': fin})
        return out
    nontriv = check_gradients(ctx, nas, fresh_cost, tag, detail, fd_elements=8, rng=rng,
                              param_info=param_info)
    ctx.cls(tag + ':' + str(names[0]))
    if nontriv:
        ctx.nontriv((tag, case['prog_seed'], names[0], case.get('train')))
    ctx.sample({'kind': tag, 'features': prog['features'], 'spec': str(names[0]),
                'cost': before})


def run_sn(case, ctx):
    from plinio import cost as pc
    rng = random.Random(case['net_seed'])
    desc = snlib.gen_sn_desc(rng, max_branches=4)
    desc['gumbel'] = case['mode'] == 'gumbel'
    desc['hard'] = case['mode'] == 'hard'
    names = ['params', 'ops', 'params_no_bias', 'ops_no_bias']
    dict_mode = bool(case.get('dictspec'))
    if dict_mode:
        rng.shuffle(names)
        spec = {nm: getattr(pc, nm) for nm in names}
    else:
        spec = getattr(pc, case['spec'])
    try:
        model, sn = snlib.convert_sn(desc, case['seed'], cost=spec, full_cost=bool(case.get('full_cost')))
    except Exception as e:
        ctx.skip(type(e).__name__ + ': ' + str(e)[:80])
        return
    sn.train()
    alphas = {}
    for n, c in snlib.combiners(sn):
        alphas[n] = torch.tensor([rng.uniform(-2, 2) for _ in range(c.alpha.numel())])
        with torch.no_grad():
            c.alpha.data.copy_(alphas[n])
    x = snlib.sn_input(desc, case['seed'], 2)
    detail = {'spec': case['spec'], 'mode': case['mode'], 'dict': dict_mode,
              'full_cost': bool(case.get('full_cost')),
              'blocks': [[b['kind'] for b in st['branches']] for st in snlib.sn_blocks(desc)]}

    def cost_of():
        if dict_mode:
            return sn.get_cost(case['spec'])
        return sn.cost

    def fresh_cost():
        torch.manual_seed(case['seed'])      # same Gumbel noise for base and perturbed evaluation
        sn(x)
        return cost_of()
    # "can be evaluated": every metric of the specification, in the form it was given
    try:
        torch.manual_seed(case['seed'])
        sn(x)
        if dict_mode:
            for nm in names:
                sn.get_cost(nm)
        else:
            sn.cost
    except Exception as e:
        ctx.violation('cost-crash', dict(detail, sig='sn:evaluate:' + type(e).__name__,
                                         exc=repr(e)[:300]))
        return
    if dict_mode:
        # another metric of the dictionary is evaluated first
        torch.manual_seed(case['seed'])
        sn(x)
        sn.get_cost(next(nm for nm in names if nm != case['spec']))
        # the value of a metric is a function of the architectural parameters alone: the same
        # network with the same coefficients and that metric as its only specification agrees
        try:
            _, twin = snlib.convert_sn(desc, case['seed'], cost=getattr(pc, case['spec']),
                                       full_cost=bool(case.get('full_cost')))
            twin.train()
            for n, c in snlib.combiners(twin):
                with torch.no_grad():
                    c.alpha.data.copy_(alphas[n])
            torch.manual_seed(case['seed'])
            twin(x)
            want = float(twin.cost)
            got = float(fresh_cost())
            ctx.mon('c12.spec_form')
            if abs(got - want) > 1e-6 * max(1.0, abs(want)):
                ctx.violation('spec-form', dict(detail, sig='sn:' + case['spec'],
                                                as_dictionary_entry=got, as_only_spec=want,
                                                dictionary_order=names))
        except Exception as e:
            ctx.error('sn twin: ' + repr(e)[:200])
    fresh_cost()
    vals = check_basic(ctx, sn, [None], lambda nm: cost_of(), 'sn:' + case['mode'], detail)
    if not vals:
        return
    before = float(vals[None])
    saved = {id(p): p.detach().clone() for p in sn.parameters()}
    noise_weights(sn)
    ctx.mon('c12.independence')
    if float(cost_of()) != before:
        ctx.violation('independence', dict(detail, sig='sn:' + case['spec'], before=before,
                                           after=float(cost_of())))
    with torch.no_grad():
        for p in sn.parameters():
            p.data.copy_(saved[id(p)])
    tag = 'sn:' + case['mode']
    if case['mode'] == 'hard':
        # a hard (one-hot) selection is piecewise constant in the coefficients: only finiteness
        c = fresh_cost()
        ctx.mon('c12.gradients')
        nontriv = False
    else:
        nontriv = check_gradients(ctx, sn, fresh_cost, tag, detail, fd_elements=8, rng=rng)
    ctx.cls(tag + ':' + case['spec'])
    if nontriv:
        ctx.nontriv((tag, case['net_seed'], case['spec']))


def run_case(case, ctx):
    if case.get('kind') == 'repo-suite':
        from vf import suitewl
        from vf.mon import insitu
        insitu.install_model_cost(ctx)
        suitewl.run(case, ctx, ('c12.insitu_cost_value',))
        return
    if case['kind'] == 'pit':
        run_pit(case, ctx)
    elif case['kind'] == 'mps':
        run_mps(case, ctx)
    elif case['kind'] == 'odimo':
        run_mps(case, ctx, odimo=True)
    else:
        run_sn(case, ctx)
