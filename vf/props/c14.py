"""C14 - integer (MATCH / MAUPITI) layers reproduce their fake-quantized counterparts.

Monitor: forward hooks on every integer conv / linear layer record the integer input X produced by
the integer network itself and the integer output Y.  The fake-quantized counterpart (same name in
the exported network) is fed (X + offset) * s_x; the oracle bounds |Y + offset - Y_fq / s_y| by one
level plus the layer's own scale/shift approximation error, computed by R-int from the layer's
stored attributes; range monitors check every stored tensor and every activation.
"""
import copy
import math
import random

import torch
import torch.nn as nn
import torch.nn.functional as F

from vf import mpslib
from vf.gen import pitgen

ID = 'C14'
LEVEL = 'exploration'
RULE = ('cases = sequential and depthwise-separable 2D programs (Conv2d with stride 1..2, padding '
        '0..1, bias on/off, optional folded BatchNorm, ReLU, MaxPool, flatten, Linear with bias '
        'on/off; a (k,1) kernel dilated on axis 0 or a (1,k) kernel dilated on axis 1) x weight / '
        'activation precision tuples from {2,4,8} (uniform, and mixed per layer through the '
        'selection coefficients) x backend in {MATCH (default and scale_bit / shift_pos options), '
        'MAUPITI} x 2 random in-range input batches.  Non-trivial: a network with >= 2 integer '
        'layers whose requantisation is active; distinct = hash of (program, precisions, backend, '
        'options).')
ASSUMPTIONS = [
    'integerize_arch is applied to a deep copy of MPS.export(): it flips `dequantize` on quantizer '
    'objects shared with the exported and the NAS model',
    'the per-layer bound is 1 level + max|acc+b| * |scale/2^shift - s_w*s_x/s_y| + 1e-3 relative '
    'float slack; the approximation error is computed from the integer layer\'s own attributes',
    'average pooling and residual adds are not driven (they leave the integer grid by design)',
]
REQUIRED_MONITORS = ['c14.layer_vs_fq', 'c14.ranges', 'c14.final_layer']
MIN_NONTRIVIAL = {'quick': 60, 'thorough': 800}
EXHAUSTIVE = {'quick': False, 'thorough': False}
TIMEOUT = {'quick': 1500, 'thorough': 10000}


def cases(tier, seed):
    cs = []
    n = 160 if tier == 'quick' else 6000
    for i in range(n):
        backend = ['match', 'maupiti', 'match', 'maupiti', 'match-opts'][i % 5]
        cs.append({'prog_seed': seed * 1000003 + 130000 + i, 'seed': seed * 7919 + i,
                   'backend': backend, 'precision': ['uniform8', 'uniform', 'mixed'][(i // 5) % 3],
                   'dil': [None, None, None, 'axis0', 'axis1'][(i // 3) % 5],
                   'nobias': (i // 7) % 4 == 0,
                   # drive some pre-activations beyond the PACT clip (saturation of the requantiser)
                   'saturate': (i // 2) % 3 == 0,
                   # ... upwards, downwards (large negative biases only) or both ways
                   'sat_sign': ['pos', 'neg', 'both', 'negb'][(i // 6) % 4],
                   # fully convolutional network: the final (not re-quantised) layer is a Conv2d
                   'conv_head': (i // 5) % 4 == 1,
                   # the dilated convolution is followed by a dilated depthwise one
                   'dil_dw': (i // 3) % 2 == 1,
                   # weights change after the last forward (fine-tune step / checkpoint load) and
                   # integerize_arch is called without a new forward
                   'stale': (i // 4) % 3 == 1})
    return cs


def worker_setup(ctx):
    pass


def gen_program(rng, dil=None, nobias=False, conv_head=False, dil_dw=False):
    b = pitgen.Builder(rng, '2d', {'max_c': 6})
    c0 = rng.randint(1, 3)
    H, W = rng.randint(6, 9), rng.randint(6, 9)
    b.shapes['x0'] = (c0, H, W)
    b.origin['x0'] = 'input'
    t = 'x0'

    def bias():
        return (rng.random() < 0.5) if nobias else True
    for i in range(rng.randint(1, 3)):
        r = rng.random()
        if dil and i == 0:
            # a 1-D kernel dilated along one axis (the only dilated form the back-ends accept)
            k, d = rng.choice([2, 3]), rng.choice([2, 3])
            cout = rng.randint(2, 6)
            name = b.lname('conv')
            out = b.fresh()
            ksz, dsz = ((k, 1), (d, 1)) if dil == 'axis0' else ((1, k), (1, d))
            shp = b.shapes[t]
            ho = shp[1] - (ksz[0] - 1) * dsz[0]
            wo = shp[2] - (ksz[1] - 1) * dsz[1]
            b.emit({'op': 'conv', 'name': name, 'src': t, 'out': out, 'cin': shp[0], 'cout': cout,
                    'k': k, 'd': d, 's': 1, 'bias': bias(), 'pad': 0, 'dw': False,
                    'kshape': list(ksz), 'dshape': list(dsz)}, (cout, ho, wo), 'search')
            t = out
            if dil_dw:
                # ... followed by a depthwise convolution dilated along the same axis
                t = b.act(t, 'relu_f')
                shp = b.shapes[t]
                k2, d2 = 2, 2
                ksz2, dsz2 = ((k2, 1), (d2, 1)) if dil == 'axis0' else ((1, k2), (1, d2))
                ho2 = shp[1] - (ksz2[0] - 1) * dsz2[0]
                wo2 = shp[2] - (ksz2[1] - 1) * dsz2[1]
                if ho2 >= 1 and wo2 >= 1:
                    name2, out2 = b.lname('dw'), b.fresh()
                    b.emit({'op': 'conv', 'name': name2, 'src': t, 'out': out2, 'cin': shp[0],
                            'cout': shp[0], 'k': k2, 'd': d2, 's': 1, 'bias': bias(), 'pad': 0,
                            'dw': True, 'kshape': list(ksz2), 'dshape': list(dsz2)},
                           (shp[0], ho2, wo2), 'search')
                    b.features.add('dilated-dw')
                    t = out2
        elif r < 0.3 and b.origin[t] != 'input':
            t = b.conv(t, dw=True, k=3, d=1, s=1, pad=1, bias=bias())
            if rng.random() < 0.4:
                t = b.bn(t)
            t = b.act(t, 'relu_mod')
            t = b.conv(t, k=1, d=1, s=1, pad=0, bias=bias())
        else:
            o = b.conv(t, k=rng.choice([1, 3]), d=1, s=rng.choice([1, 1, 2]), pad=rng.choice([0, 1]),
                       bias=bias())
            if o is None:
                continue
            t = o
            if rng.random() < 0.4:
                t = b.bn(t)
        t = b.act(t, rng.choice(['relu_mod', 'relu_f', 'relu_t']))
        if rng.random() < 0.3 and min(b.shapes[t][1:]) >= 4:
            t = b.pool(t, 'max')
    if conv_head:
        # the network ends with a convolution (its output is the logits map)
        t = b.conv(t, k=rng.choice([1, 1, 3]), d=1, s=1, pad=rng.choice([0, 1]), bias=bias())
        if t is None:
            raise ValueError('no room for a final convolution')
        b.features.add('conv-head')
        return {'family': '2d', 'inputs': [[c0, H, W]], 'ops': b.ops, 'out': t, 'excluded': [],
                'features': sorted(b.features) + ([dil] if dil else []), 'traits': []}
    t = b.flat(t)
    if rng.random() < 0.5:
        t = b.lin(t, fout=rng.randint(2, 8), bias=bias())
        t = b.act(t, 'relu_f')
    t = b.lin(t, fout=rng.randint(2, 5), bias=bias())
    return {'family': '2d', 'inputs': [[c0, H, W]], 'ops': b.ops, 'out': t, 'excluded': [],
            'features': sorted(b.features) + ([dil] if dil else []), 'traits': []}


def int_layers(net):
    from plinio.methods.mps.quant.backends.match.nn import MATCHConv2d, MATCHLinear
    from plinio.methods.mps.quant.backends.maupiti.nn import MAUPITIConv2d, MAUPITILinear
    return {n: m for n, m in net.named_modules()
            if isinstance(m, (MATCHConv2d, MATCHLinear, MAUPITIConv2d, MAUPITILinear))}


def is_int(t):
    return bool((t == t.round()).all())


def run_case(case, ctx):
    from plinio.methods.mps.quant.backends import Backend, integerize_arch
    from plinio.methods.mps.quant.quantizers import DummyQuantizer
    rng = random.Random(case['prog_seed'])
    for _ in range(30):
        try:
            prog = gen_program(rng, case['dil'], case['nobias'], case.get('conv_head', False),
                                case.get('dil_dw', False))
            m0 = pitgen.build(prog, 0)
            with torch.no_grad():
                m0(*pitgen.example_inputs(prog, 1, 0))
            break
        except (RuntimeError, AssertionError, TypeError, ValueError, KeyError):
            prog = None
    if prog is None:
        ctx.skip('no valid program')
        return
    prec = case['precision']
    if prec == 'uniform8':
        w_prec, a_prec = (8,), (8,)
    elif prec == 'uniform':
        p = rng.choice([2, 4, 8])
        w_prec, a_prec = (rng.choice([2, 4, 8]),), (p,)
    else:
        w_prec, a_prec = (2, 4, 8), (2, 4, 8)
    try:
        model, mps, xs = mpslib.convert_mps(prog, case['seed'], w_prec, a_prec)
    except Exception as e:
        ctx.skip('mps: ' + type(e).__name__ + ': ' + str(e)[:80])
        return
    if case.get('saturate'):
        # large biases / weights on a few channels of every searchable layer
        from plinio.methods.mps.nn import MPSConv2d, MPSLinear
        g = torch.Generator().manual_seed(case['seed'] + 7)
        with torch.no_grad():
            for _n, L in mpslib.mps_layers(mps):
                if isinstance(L, (MPSConv2d, MPSLinear)):
                    k = torch.rand(L.weight.shape[0], generator=g) < 0.4
                    if L.bias is not None:
                        sgn = case.get('sat_sign', 'pos')
                        if sgn == 'pos':
                            L.bias[k] += 10.0
                        elif sgn == 'neg':
                            L.bias[k] -= 8.0 + 20.0 * torch.rand(int(k.sum()), generator=g)
                        else:
                            L.bias[k] += torch.where(torch.rand(int(k.sum()), generator=g) < 0.5,
                                                     10.0, -12.0)
                    if case.get('sat_sign') == 'negb':
                        # biases just beyond -clip only, weights untouched (the scaled bias is then
                        # the largest stored quantity of the layer)
                        if L.bias is not None:
                            L.bias.copy_(-(6.5 + 4.0 * torch.rand(L.bias.shape, generator=g)))
                        continue
                    shape = [-1] + [1] * (L.weight.dim() - 1)
                    L.weight.mul_(torch.where(k, 6.0, 1.0).reshape(shape))
        ctx.cls('saturate-' + case.get('sat_sign', 'pos'))
    mps.eval()
    if prec == 'mixed':
        mpslib.assign_coefficients(mps, rng)
    x = mpslib.in_range_inputs(prog, case['seed'], 2)
    with torch.no_grad():
        mps(x)
    try:
        E = mps.export()
        E.eval()
        with torch.no_grad():
            E(x)
    except Exception as e:
        ctx.skip('export: ' + type(e).__name__ + ': ' + str(e)[:80])
        return
    if case.get('stale'):
        # the weights move after the last forward; no forward before integerize_arch
        g = torch.Generator().manual_seed(case['seed'] + 13)
        with torch.no_grad():
            for n_, p_ in E.named_parameters():
                if n_.endswith('.weight'):
                    p_.mul_(1.0 + 0.8 * torch.rand(p_.shape[0], generator=g).reshape(
                        [-1] + [1] * (p_.dim() - 1)))
        ctx.cls('weights-changed-after-last-forward')
    backend = Backend.MAUPITI if case['backend'] == 'maupiti' else Backend.MATCH
    kwargs = {}
    if case['backend'] == 'match-opts':
        kwargs = rng.choice([{'scale_bit': 16}, {'scale_bit': 8, 'shift_pos': 16},
                             {'scale_bit': 31, 'shift_pos': 31}, {'shift_pos': 12}])
    summ = mps.summary()
    has_bias = {op['name']: (op['bias'] or any(o['op'] == 'bn' and o['src'] == op['out']
                                               for o in prog['ops']))
                for op in prog['ops'] if op['op'] in ('conv', 'lin')}
    d0 = {'backend': case['backend'], 'kwargs': kwargs, 'precision': prec, 'w_prec': w_prec,
          'a_prec': a_prec, 'features': prog['features'],
          'layers_without_bias': [k for k, v in has_bias.items() if not v],
          'dilated_axis': case['dil'],
          'final_layer': prog['ops'][-1].get('name'), 'final_layer_kind': prog['ops'][-1]['op'],
          'final_layer_has_bias': bool(prog['ops'][-1].get('bias')),
          'in_out_precisions': {k: (v.get('in_precision'), v.get('out_precision'))
                                for k, v in summ.items() if 'in_precision' in v}}
    if any(v[0] is not None and v[0] < 0 for v in d0['in_out_precisions'].values()):
        # MPS left a layer without an input quantizer (seen on 1-channel fully convolutional chains):
        # the integer back-ends have no declared input range to check against
        ctx.skip('layer without input quantizer (in_precision -1)')
        return
    try:
        I = integerize_arch(copy.deepcopy(E), backend, backend_kwargs=kwargs)
        I.eval()
    except Exception as e:
        ctx.violation('integerize-crash', dict(d0, sig=case['backend'].split('-')[0] + ':' +
                                               type(e).__name__, exc=repr(e)[:300]))
        return
    ints = int_layers(I)
    emods = dict(E.named_modules())
    signed = backend == Backend.MAUPITI
    ctx.cls(case['backend'] + ':' + prec + (':' + case['dil'] if case['dil'] else ''))
    # ---- range monitors on stored state ----------------------------------------------------------
    scale_bit = kwargs.get('scale_bit', 24) if not signed else 16
    shift_pos = kwargs.get('shift_pos', 24) if not signed else 32
    for name, L in ints.items():
        ctx.mon('c14.ranges')
        wb = int(L.w_quantizer.precision)
        w = L.weight.detach()
        dd = dict(d0, layer=name)
        if not is_int(w) or float(w.min()) < -2 ** (wb - 1) or float(w.max()) > 2 ** (wb - 1) - 1:
            ctx.violation('ranges', dict(dd, sig='weights', min=float(w.min()), max=float(w.max()),
                                         bits=wb))
        sc = L.scale.detach().flatten().double()
        if not is_int(sc) or float(sc.min()) < 1 or float(sc.max()) > 2 ** (scale_bit - 1):
            ctx.violation('ranges', dict(dd, sig='scale', min=float(sc.min()), max=float(sc.max()),
                                         scale_bit=scale_bit))
        if float(sc.max()) == 2 ** (scale_bit - 1):
            ctx.count('observation_scale_saturated')
        sh = int(L.shift.flatten()[0])
        if sh < 0 or sh >= shift_pos:
            ctx.violation('ranges', dict(dd, sig='shift', shift=sh, shift_pos=shift_pos))
        for attr in ('add_bias', '_zero_point'):
            v = getattr(L, attr, None)
            if isinstance(v, torch.Tensor):
                v = v.detach().double()
                # the declared 32-bit range is that of the *scaled bias* (add_bias), which is what
                # the back-ends' own overflow test covers; MAUPITI's _zero_point additionally
                # holds offset * 2^shift and is only required to be an integer
                too_big = attr == 'add_bias' and float(v.abs().max()) > 2 ** 31
                if not is_int(v) or too_big:
                    ctx.violation('ranges', dict(dd, sig=attr, max_abs=float(v.abs().max()),
                                                 integer=is_int(v)))
                if attr == '_zero_point' and float(v.abs().max()) > 2 ** 31:
                    ctx.count('observation_zero_point_above_32bit')
    # ---- run the integer network, record X / Y per layer ------------------------------------------
    rec = {}
    hooks = []
    for name, L in ints.items():
        hooks.append(L.register_forward_hook(
            lambda mod, inp, out, name=name: rec.setdefault(name, []).append(
                (inp[0].detach().clone(), out.detach().clone()))))
    in_q = None
    for n, m in E.named_modules():
        if n.endswith('input_quantizer'):
            in_q = m.out_quantizer
    for bi in range(2):
        xb = mpslib.in_range_inputs(prog, case['seed'] + bi, 2, ['in', 'above'][bi])
        if signed:
            # MAUPITI removes the input quantizer: feed the offset-signed integer image
            with torch.no_grad():
                in_q.dequantize = False
                xi = in_q(xb)
                in_q.dequantize = True
            xin = xi - 2 ** (int(in_q.precision) - 1)
        else:
            xin = xb
        try:
            with torch.no_grad():
                y_int = I(xin)
                y_fq = E(xb)
        except Exception as e:
            ctx.violation('integer-forward-crash', dict(d0, sig=case['backend'].split('-')[0] + ':' +
                                                        type(e).__name__, exc=repr(e)[:300]))
            for h in hooks:
                h.remove()
            return
    for h in hooks:
        h.remove()
    # ---- per-layer comparison ------------------------------------------------------------------------
    n_requant = 0
    for name, L in ints.items():
        fq = emods.get(name)
        if fq is None or name not in rec:
            continue
        last = type(L.out_quantizer) is DummyQuantizer
        b_in = int(L.in_quantizer.precision)
        off_in = 2 ** (b_in - 1) if signed else 0
        s_x = float(fq.in_quantizer.scale)
        for X, Y in rec[name]:
            dd = dict(d0, layer=name, last=last, in_bits=b_in,
                      out_bits=None if last else int(L.out_quantizer.precision))
            # activations are integers inside the declared range
            lo_in, hi_in = (-2 ** (b_in - 1), 2 ** (b_in - 1) - 1) if signed else (0, 2 ** b_in - 1)
            if not is_int(X) or float(X.min()) < lo_in or float(X.max()) > hi_in:
                ctx.violation('ranges', dict(dd, sig='input-activation', min=float(X.min()),
                                             max=float(X.max()), integer=is_int(X)))
            x_real = (X.double() + off_in) * s_x
            with torch.no_grad():
                y_fq_l = fq(x_real.float()).double()
            # weight quantizers can be shared between layers (one sharing group): the per-channel
            # scale must be read right after *this* layer used the quantizer
            s_w = fq.w_quantizer.scale.detach().double().flatten()
            is_conv = Y.dim() == 4
            shape = (1, -1, 1, 1) if is_conv else (1, -1)
            sc = L.scale.detach().double().reshape(shape)
            sh = float(L.shift.flatten()[0])
            # R-int: pure integer accumulation on the unsigned image
            Xu = X.double() + off_in
            Wi = L.weight.detach().double()
            if is_conv:
                acc = F.conv2d(Xu, Wi, None, L.stride, L.padding if not signed else 0,
                               L.dilation, L.groups) if not signed else \
                    F.conv2d(F.pad(Xu, [int(L.pad.padding[0])] * 4), Wi, None, L.stride, 0,
                             L.dilation, L.groups)
            else:
                acc = F.linear(Xu, Wi, None)
            if last:
                ctx.mon('c14.final_layer')
                logits = y_fq_l
                if signed:
                    got = Y.double()
                    approx = (sc / 2 ** sh - (s_w * s_x).reshape(shape)).abs()
                    # the integer bias is scaled by the same approximated factor as the accumulator
                    b_last = 0.0
                    if isinstance(getattr(L, 'add_bias', None), torch.Tensor):
                        b_last = L.add_bias.detach().double() / sc
                    bound = ((acc + b_last).abs() + 1) * approx + 1e-3 * logits.abs() + \
                        (s_w * s_x).reshape(shape) + 1e-6
                else:
                    got = Y.double() * (s_w * s_x).reshape(shape)
                    bound = 1e-3 * logits.abs() + (s_w * s_x).reshape(shape) + 1e-6
                if got.shape != logits.shape or bool(((got - logits).abs() > bound).any()):
                    ctx.violation('final-layer', dict(
                        dd, sig=case['backend'].split('-')[0] + ':last',
                        max_err=float((got - logits).abs().max()) if got.shape == logits.shape
                        else 'shape', max_bound=float(bound.max())))
                continue
            n_requant += 1
            b_out = int(L.out_quantizer.precision)
            off_out = 2 ** (b_out - 1) if signed else 0
            lo, hi = (-2 ** (b_out - 1), 2 ** (b_out - 1) - 1) if signed else (0, 2 ** b_out - 1)
            if not is_int(Y) or float(Y.min()) < lo or float(Y.max()) > hi:
                ctx.violation('ranges', dict(dd, sig='output-activation', min=float(Y.min()),
                                             max=float(Y.max()), integer=is_int(Y)))
            s_y = float(fq.out_quantizer.scale)
            target = (s_w * s_x / s_y).reshape(shape)
            approx = (sc / 2 ** sh - target).abs()
            b_int = 0.0
            if isinstance(getattr(L, 'add_bias', None), torch.Tensor):
                b_int = L.add_bias.detach().double() / sc
            bound = 1.0 + (acc + b_int).abs() * approx + 1e-3 * (y_fq_l / s_y).abs() + 1e-6
            ctx.mon('c14.layer_vs_fq')
            ref = y_fq_l / s_y - off_out
            err = (Y.double() - ref).abs()
            if err.shape != bound.shape or bool((err > bound).any()):
                ctx.violation('layer-vs-fq', dict(
                    dd, sig=case['backend'].split('-')[0] + ':layer',
                    max_err_levels=float(err.max()) if err.shape == bound.shape else 'shape',
                    max_bound=float(bound.max()) if err.shape == bound.shape else None,
                    in_ne_out_bits=b_in != b_out))
    if n_requant >= 1 and len(ints) >= 2:
        ctx.nontriv((case['prog_seed'], case['backend'], prec, str(kwargs), case['dil'],
                     case['nobias'], case['seed']))
    ctx.sample({'backend': case['backend'], 'kwargs': kwargs, 'precision': prec,
                'features': prog['features'], 'n_integer_layers': len(ints),
                'in_out_precisions': d0['in_out_precisions']})
