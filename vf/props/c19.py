"""C19 - regularizers are non-negative penalties that vanish when constraints hold.

Monitor: reference model R-duccio (float64) against the real BaseRegularizer / DUCCIO objects on
stub DNAS models (named differentiable costs) and on real PIT models; the effective strength is
recovered by differentiating the returned value with respect to the stub cost.
"""
import math
import random

import torch

ID = 'C19'
LEVEL = 'exploration'
RULE = ('cases = every (epoch, n_epochs) pair with n_epochs 1..50 and epoch 0..n_epochs (1325 '
        'pairs, enumerated) x stub models with 1..3 named costs placed above / at / below their '
        'targets x final strengths given explicitly or derived from task_loss (derived only where '
        'the initial cost exceeds the target) + real PIT models with params/ops dictionaries + '
        'BaseRegularizer with random strengths.  Non-trivial: at least one cost above target and '
        'one not above (mixed), or an annealing position strictly inside the schedule; '
        'distinct = (epoch, n_epochs, cost placement, strengths mode).')
RULE += ('  Round 3: derived strengths with metrics that start below their target and exceed it in a later call (value stays finite and non-negative).')
RULE += ('  Round 4b: a violated metric with a positive strength must receive a gradient (first call included).')
ASSUMPTIONS = [
    '"positive final strengths" is read as positive and finite (a cost exactly at its target gives '
    'a derived strength of inf, outside the premise)',
    '"reaches the final strength" allows 1 ulp in float32',
]
REQUIRED_MONITORS = ['c19.duccio_value', 'c19.strength_schedule', 'c19.base', 'c19.real_model',
                     'c19.derived_history']
MIN_NONTRIVIAL = {'quick': 400, 'thorough': 1500}
EXHAUSTIVE = {'quick': False, 'thorough': False}
EXHAUSTIVE_NOTE = 'the (epoch, n_epochs) grid is complete in both tiers; cost placements are sampled'
MAX_WORKERS = 8


class StubDNAS:
    """Just enough of the DNAS interface for a regularizer: named differentiable costs."""
    def __init__(self, costs):
        self.vars = {k: torch.tensor(float(v), requires_grad=True) for k, v in costs.items()}

    def get_cost(self, name=None):
        return self.vars[name] * 1.0

    @property
    def cost(self):
        return self.get_cost(next(iter(self.vars)))


def cases(tier, seed):
    cs = []
    i = 0
    reps = 1 if tier == 'quick' else 12
    for rep in range(reps):
        for n in range(1, 51):
            for e in range(0, n + 1):
                cs.append({'kind': 'duccio', 'epoch': e, 'n_epochs': n, 'seed': seed * 99991 + i,
                           'mode': ['given', 'derived'][(i + rep) % 2], 'ncost': 1 + (i % 3)})
                i += 1
    for j in range(60 if tier == 'quick' else 400):
        cs.append({'kind': 'base', 'seed': seed * 31 + j})
    for j in range(10 if tier == 'quick' else 60):
        cs.append({'kind': 'real', 'seed': seed * 17 + j})
    return cs


def worker_setup(ctx):
    pass


def ulp32(x):
    return abs(float(torch.nextafter(torch.tensor(float(x)), torch.tensor(float('inf')))) - float(x))


def run_duccio(case, ctx):
    from plinio.regularizers import DUCCIO
    rng = random.Random(case['seed'])
    e, n = case['epoch'], case['n_epochs']
    names = ['params', 'ops', 'lat'][:case['ncost']]
    targets, costs, place = {}, {}, []
    for nm in names:
        t = 10 ** rng.uniform(0, 6)
        if case['mode'] == 'derived':
            # a derived strength is positive only for a metric that starts above its target; the
            # other metrics of a multi-metric constraint may start below theirs (derived strength
            # 0: they never contribute)
            p = 'above' if nm == names[0] else rng.choice(['above', 'below'])
        else:
            # (every schedule position is met with at least one violated constraint - otherwise the
            # penalty is 0 whatever the schedule does there - except in a fifth of the cases, which
            # keep the all-within-targets placements for the "zero iff" clause)
            p = 'above' if (nm == names[0] and case['seed'] % 5 != 4) else \
                rng.choice(['above', 'above', 'at', 'below'])
        c = {'above': t * (1 + 10 ** rng.uniform(-4, 1)), 'at': t,
             'below': t * rng.uniform(0.0, 0.999)}[p]
        targets[nm] = torch.tensor(t)
        costs[nm] = c
        place.append(p)
    model = StubDNAS(costs)
    task_loss = torch.tensor(10 ** rng.uniform(-3, 1))
    if case['mode'] == 'given':
        fs = tuple(torch.tensor(10 ** rng.uniform(-8, 2)) for _ in names)
        reg = DUCCIO(targets, final_strengths=fs)
    else:
        reg = DUCCIO(targets, task_loss=task_loss)
        fs = tuple(torch.maximum(torch.tensor(0.0), task_loss / (model.get_cost(nm).detach() - targets[nm]))
                   for nm in names)
    val = reg(model, e, n)
    ctx.mon('c19.duccio_value')
    v = float(val)
    fs64 = [float(s) for s in fs]
    # R-duccio, float64
    eff = [min(s / 100 + e * (s * 99 / 100) / (n / 2), s) for s in fs64]
    excess = [max(0.0, float(model.vars[nm].detach()) - float(targets[nm])) for nm in names]
    want = sum(a * b for a, b in zip(eff, excess))
    detail = {'epoch': e, 'n_epochs': n, 'placement': place, 'strengths': fs64, 'value': v,
              'reference': want, 'mode': case['mode']}
    if not math.isfinite(v) or v < 0:
        ctx.violation('duccio-value', dict(detail, sig='finite-nonneg'))
    all_within = all(x == 0.0 for x in excess)
    if all_within != (v == 0.0):
        ctx.violation('duccio-value', dict(detail, sig='zero-iff-constraints-hold'))
    if abs(v - want) > 1e-5 * max(abs(want), 1e-30):
        ctx.violation('duccio-value', dict(detail, sig='value-vs-reference'))
    # effective strength = d value / d cost_i for every violated constraint
    grads = torch.autograd.grad(val, [model.vars[nm] for nm in names], allow_unused=True) \
        if val.requires_grad else [None] * len(names)
    for nm, s, g, ex in zip(names, fs64, grads, excess):
        if ex <= 0:
            # nothing is claimed about the (sub-)gradient at or below the target
            continue
        ctx.mon('c19.strength_schedule')
        if g is None:
            # the penalty of a violated constraint with a positive strength does not reach the
            # cost it penalises (observed on the first call of this regularizer object)
            if s > 0:
                ctx.violation('strength-schedule', dict(detail, sig='no-gradient-to-violated-metric',
                                                        metric=nm, final=s,
                                                        value_requires_grad=bool(val.requires_grad)))
            continue
        es = float(g)
        tol = 2 * ulp32(s)
        if es > s + tol:
            ctx.violation('strength-schedule', dict(detail, sig='above-final', metric=nm, eff=es,
                                                    final=s))
        if e == 0 and abs(es - s / 100) > 1e-6 * s:
            ctx.violation('strength-schedule', dict(detail, sig='epoch0-not-1pct', metric=nm,
                                                    eff=es, final=s))
        if e >= n / 2 and abs(es - s) > tol:
            ctx.violation('strength-schedule', dict(detail, sig='not-final-after-half',
                                                    metric=nm, eff=es, final=s))
        # monotone in the epoch: compare with the previous epoch on the same objects
        if e > 0:
            val_prev = reg(model, e - 1, n)
            gp = torch.autograd.grad(val_prev, model.vars[nm], allow_unused=True)[0]
            if gp is not None and float(gp) > es + tol:
                ctx.violation('strength-schedule', dict(detail, sig='decreasing-in-epoch',
                                                        metric=nm, eff=es, eff_prev=float(gp)))
    # strictly increasing in each excess
    for nm, ex, ef in zip(names, excess, eff):
        if ex <= 0:
            continue
        bumped = dict(costs)
        bumped[nm] = costs[nm] * 1.5
        v2 = float(reg(StubDNAS(bumped), e, n))
        # float32 sum: the growth must be observable only when it is resolvable next to the total
        if ef * (costs[nm] * 0.5) <= 8 * ulp32(max(v, v2)):
            ctx.count('increase_not_resolvable_in_float32')
            continue
        if not v2 > v:
            ctx.violation('duccio-value', dict(detail, sig='not-increasing-in-excess', metric=nm,
                                               value_bumped=v2))
    # history: a metric that was below its target when the strengths were derived later exceeds it
    # (the search trades one metric for another): the penalty stays a finite non-negative number
    if case['mode'] == 'derived' and 'below' in place:
        later = {nm: (float(targets[nm]) * (1 + 10 ** rng.uniform(-2, 1)) if p == 'below' else c)
                 for (nm, c), p in zip(costs.items(), place)}
        v3 = float(reg(StubDNAS(later), e, n))
        ctx.mon('c19.derived_history')
        if not math.isfinite(v3) or v3 < 0:
            ctx.violation('duccio-value', dict(detail, sig='negative-after-metric-crossed-target',
                                               later_costs=later, later_value=v3))
    mixed = any(x > 0 for x in excess) and any(x == 0 for x in excess)
    if mixed or (0 < e < n / 2):
        ctx.nontriv((e, n, tuple(place), case['mode']))
    ctx.cls(f"n{n // 10 * 10}+-{case['mode']}-{case['ncost']}costs")
    ctx.sample(detail)


def run_base(case, ctx):
    from plinio.regularizers import BaseRegularizer
    rng = random.Random(case['seed'])
    c = rng.choice([0.0, 1.0, 10 ** rng.uniform(-3, 9)])
    s = rng.choice([0.0, 1e-3, 10 ** rng.uniform(-9, 3), -1e-3])
    model = StubDNAS({'params': c})
    got = BaseRegularizer('params', s)(model)
    ctx.mon('c19.base')
    want = float(torch.tensor(c) * s)
    if float(got) != want:
        ctx.violation('base-regularizer', {'sig': 'value', 'cost': c, 'strength': s,
                                           'got': float(got), 'want': want})
    g = torch.autograd.grad(got, model.vars['params'], allow_unused=True)[0]
    if g is None or abs(float(g) - s) > 1e-6 * abs(s):
        ctx.violation('base-regularizer', {'sig': 'gradient', 'strength': s,
                                           'grad': None if g is None else float(g)})
    ctx.nontriv(('base', c, s))
    ctx.cls('base')


def run_real(case, ctx):
    """Real PIT model with a dictionary of costs: the regularizers read model.get_cost(name)."""
    from plinio import cost as pc
    from plinio.regularizers import DUCCIO, BaseRegularizer
    from vf import pitlib
    from vf.gen import pitgen
    rng = random.Random(case['seed'])
    prog = pitgen.gen_valid_program(rng, family=rng.choice(['1d', '2d']))
    try:
        model, pit, xs = pitlib.convert_pit(prog, case['seed'],
                                            cost={'params': pc.params, 'ops': pc.ops})
    except Exception as e:
        ctx.skip(type(e).__name__ + ': ' + str(e)[:80])
        return
    pitlib.apply_channel_masks(pit, rng, 'normal')
    cp, co = float(pit.get_cost('params')), float(pit.get_cost('ops'))
    ctx.mon('c19.real_model')
    s = 10 ** rng.uniform(-6, 0)
    got = float(BaseRegularizer('ops', s)(pit))
    if abs(got - co * s) > 1e-6 * abs(co * s):
        ctx.violation('base-regularizer', {'sig': 'real-model', 'got': got, 'want': co * s})
    for tp, to in [(cp * 0.5, co * 2.0), (cp * 2.0, co * 2.0), (cp * 0.5, co * 0.25)]:
        reg = DUCCIO({'params': torch.tensor(tp), 'ops': torch.tensor(to)},
                     final_strengths=(torch.tensor(1e-3), torch.tensor(1e-5)))
        n = rng.randint(2, 30)
        e = rng.randint(0, n)
        v = float(reg(pit, e, n))
        eff = [min(fs / 100 + e * (fs * 99 / 100) / (n / 2), fs) for fs in (1e-3, 1e-5)]
        want = eff[0] * max(0.0, cp - tp) + eff[1] * max(0.0, co - to)
        if not math.isfinite(v) or v < 0 or abs(v - want) > 1e-4 * max(abs(want), 1e-12) or \
                ((v == 0.0) != (cp <= tp and co <= to)):
            ctx.violation('duccio-value', {'sig': 'real-model', 'value': v, 'reference': want,
                                           'params': cp, 'ops': co, 'targets': [tp, to],
                                           'epoch': e, 'n_epochs': n})
    ctx.nontriv(('real', case['seed']))
    ctx.cls('real-pit')


def run_case(case, ctx):
    {'duccio': run_duccio, 'base': run_base, 'real': run_real}[case['kind']](case, ctx)
