"""C01 - PIT export computes the same function as the searched (masked) network.

Monitor: differential oracle at the API boundary (PIT.eval()(x) vs export().eval()(x) after the
re-created BatchNorms got the statistics of the ones they replace), plus a structural monitor on
the exported layers (R-time comb model, mask widths) and an in-situ contract on
PITConv1d._time_mask(discrete=True).
"""
import random

import torch
import torch.nn as nn

from vf import pitlib
from vf.gen import pitgen

ID = 'C01'
LEVEL = 'exploration'
RULE = ('cases = (a) exhaustive sweep of every reachable binarised time-mask pattern (r leading '
        'beta elements pruned, g leading gamma elements pruned) of one causal Conv1d, kernel 1..9 x '
        'initial dilation 1..3 (x stride 1..2, x position first/middle/before-flatten/residual in '
        'the thorough tier), binary and real-valued (cumulative-sum crossing) realisations; '
        '(c) the repository\'s own unit_test models (TCResNet14, DSCNN, ToyAdd, ...) with random '
        'channel masks; (b) random G-PIT programs (1D/2D, conv/depthwise/linear/BN/ReLU/pool/flatten/add/cat) x '
        'channel-mask modes (binary, adversarial reals, N(0,1), all-pruned) x random time patterns '
        'x fold_bn on/off.  A case is non-trivial when at least one mask element is pruned AND the '
        'exported network differs from the seed in at least one conv/linear hyper-parameter; '
        'distinct = hash of (program, options, mask assignment).')
RULE += ('  Round 2/3: BatchNorm layers with non-default eps (1e-3, 1e-2, 5e-2); heads made of two classifiers concatenated into the output.')
RULE += ('  Round 4: second export of the same wrapper after an alive and a pruned channel of every masker traded places; DenseNet-style chains of nested concats.')
RULE += ("  Round 5: per-axis conv geometry (non-square kernels, unequal stride / dilation / padding, 'same' with even kernels); padding='valid' spelled as a string on causal Conv1d.")
ASSUMPTIONS = [
    'equality is judged on a batch of 4 random real inputs per case with tolerance 1e-4*(1+max|y|)',
    'time masks are pruned only on causally padded stride-1 Conv1d (the statement\'s scope)',
    'BatchNorm appears only directly after a conv/linear; torch.fx and PyTorch kernels are trusted',
]
REQUIRED_MONITORS = ['c01.output_diff', 'c01.struct', 'c01.time_mask_contract']
MIN_NONTRIVIAL = {'quick': 150, 'thorough': 2000}
EXHAUSTIVE = {'quick': False, 'thorough': False}
EXHAUSTIVE_NOTE = ('the time-mask pattern sub-space (K 1..9, d 1..3, every (r,g)) is enumerated '
                   'completely in both tiers; programs and channel masks are sampled')


def sweep_patterns(kmax=9):
    import math
    out = []
    for K in range(1, kmax + 1):
        glen = max(math.ceil(math.log(K, 2)), 1)
        for r in range(K):
            for g in range(glen):
                out.append((K, r, g))
    return out


def cases(tier, seed):
    cs = []
    pats = sweep_patterns(9)
    positions = ['middle'] if tier == 'quick' else ['first', 'middle', 'before_flatten', 'residual']
    for d in (1, 2, 3):
        for (K, r, g) in pats:
            for pos in positions:
                for style in (('binary',) if tier == 'quick' and (K + r + g + d) % 3 else
                              ('binary', 'real')):
                    cs.append({'kind': 'sweep', 'K': K, 'd': d, 'r': r, 'g': g, 'pos': pos,
                               'style': style, 'bn': (K + r) % 2 == 0, 'fold': (g + d) % 2 == 0,
                               'bias': (r + d) % 3 != 0, 'seed': seed * 7919 + len(cs)})
    nprog = 500 if tier == 'quick' else 16000
    modes = ['binary', 'mixed', 'adversarial', 'normal', 'allpruned', 'binary', 'mixed', 'open']
    for i in range(nprog):
        cs.append({'kind': 'random', 'prog_seed': seed * 1000003 + i,
                   'family': '1d' if i % 2 == 0 else '2d', 'mask_mode': modes[i % len(modes)],
                   'fold': (i // 2) % 2 == 1, 'time_style': 'real' if i % 5 == 0 else 'binary',
                   'seed': seed * 104729 + i})
    # a searchable layer (alone, or together with its BatchNorm) invoked twice in forward
    for i in range(32 if tier == 'quick' else 600):
        cs.append({'kind': 'reuse', 'prog_seed': seed * 7907 + i, 'family': '1d' if i % 2 else '2d',
                   'mask_mode': modes[i % len(modes)], 'fold': (i // 2) % 2 == 1,
                   'time_style': 'real' if i % 5 == 0 else 'binary', 'same': (i // 4) % 2 == 0,
                   'with_bn': (i // 8) % 4 != 3, 'seed': seed * 7717 + i})
    # a layer invoked twice in two different width-sharing groups; pad modules per call site / shared
    for i, c in enumerate(pitgen.special_cases(48 if tier == 'quick' else 960, seed, {'kind': 'random'})):
        cs.append(dict(c, mask_mode=modes[i % len(modes)], fold=(i // 3) % 2 == 1,
                       time_style='real' if i % 5 == 0 else 'binary'))
    # the repository's own unit_test models, channel masks only
    for i, name in enumerate(REPO_MODELS * (1 if tier == 'quick' else 8)):
        cs.append({'kind': 'repo-model', 'model': name, 'fold': i % 2 == 1,
                   'mask_mode': ['binary', 'adversarial', 'normal'][i % 3],
                   'seed': seed * 31 + i})
    # the repository's own PIT tests under the in-situ _time_mask contract
    from vf import suitewl
    cs += suitewl.cases(tier, select=('test_pit/',), slow_in_quick=('test_regularization_loss_theta_descent',))
    return cs


# ------------------------------------------------------------------------------------------------
_state = {}


def worker_setup(ctx):
    """In-situ contract on the real PITConv1d._time_mask: in discrete mode the result is binary,
    non-empty and a comb suffix that contains the most recent tap (R-time)."""
    from vf import neutral
    neutral.enable(ctx)      # neutral prefixes after conversion in half of the cases
    from plinio.methods.pit.nn import PITConv1d
    orig = PITConv1d._time_mask

    def time_mask_monitored(self, discrete):
        res = orig(self, discrete)
        if discrete:
            ctx.mon('c01.time_mask_contract')
            vals = res.detach().flatten().tolist()
            K = self.kernel_size[0]
            alive = [i for i, v in enumerate(vals) if v != 0.0]
            ok_bin = all(v in (0.0, 1.0) for v in vals)
            ok, s, ks = pitlib.r_time_decode(alive, K)
            if not (ok_bin and ok):
                key = ('tm', K, tuple(vals))
                if key not in _state:
                    _state[key] = 1
                    ctx.violation('time-mask-contract', {
                        'sig': 'time-mask-not-anchored-comb', 'K': K, 'time_mask': vals,
                        'binary': ok_bin, 'beta': pitlib.mask_tensor(self.timestep_masker),
                        'gamma': pitlib.mask_tensor(self.dilation_masker)})
        return res
    PITConv1d._time_mask = time_mask_monitored


def _exported_layers(exported):
    return {n: m for n, m in exported.named_modules()
            if isinstance(m, (nn.Conv1d, nn.Conv2d, nn.Linear))}


def check_structure(ctx, pit, exported, expect_time=None):
    """Exported hyper-parameters vs the masks of the PIT layer they come from."""
    from plinio.methods.pit.nn import PITConv1d, PITConv2d, PITLinear
    emods = dict(exported.named_modules())
    changed = False
    for name, layer in pitlib.pit_layers(pit):
        if not isinstance(layer, (PITConv1d, PITConv2d, PITLinear)):
            continue
        e = emods.get(name)
        ctx.mon('c01.struct')
        if e is None or isinstance(e, (PITConv1d, PITConv2d, PITLinear)):
            ctx.violation('struct', {'sig': 'layer-not-exported', 'layer': name, 'type': str(type(e))})
            continue
        nout = int(layer.features_mask.sum().item())
        if isinstance(layer, PITLinear):
            got_out, full_out = e.out_features, layer.out_features
        else:
            got_out, full_out = e.out_channels, layer.out_channels
        if got_out != nout:
            ctx.violation('struct', {'sig': 'out-width', 'layer': name, 'exported': got_out,
                                     'mask_sum': nout})
        if got_out != full_out:
            changed = True
        if isinstance(layer, PITConv1d):
            K = layer.kernel_size[0]
            tm = layer.time_mask.flatten().tolist()
            alive = [i for i, v in enumerate(tm) if v != 0.0]
            ok, s, ks = pitlib.r_time_decode(alive, K)
            if expect_time is not None and name in expect_time:
                exp_alive, exp_s = expect_time[name]
                if alive != exp_alive:
                    ctx.violation('struct', {'sig': 'time-mask-pattern', 'layer': name, 'K': K,
                                             'alive': alive, 'expected': exp_alive})
            if ok:
                d0 = layer.dilation[0]
                exp_k = ks
                exp_d = (s if s is not None else None)
                if e.kernel_size[0] != exp_k:
                    ctx.violation('struct', {'sig': 'kernel-size', 'layer': name, 'K': K,
                                             'alive': alive, 'exported_k': e.kernel_size[0]})
                if exp_d is not None and e.dilation[0] != exp_d * d0:
                    ctx.violation('struct', {'sig': 'dilation', 'layer': name, 'K': K,
                                             'alive': alive, 'd0': d0,
                                             'exported_d': e.dilation[0]})
                if e.kernel_size[0] != K or (exp_d is not None and exp_d != 1):
                    changed = True
                # causal padding amount: the pad module sits right before the conv
                pad = emods.get(name + '_pad')
                if pad is not None and isinstance(pad, nn.ConstantPad1d):
                    want = (e.kernel_size[0] - 1) * e.dilation[0]
                    if tuple(pad.padding) != (want, 0):
                        ctx.violation('struct', {'sig': 'pad-amount', 'layer': name,
                                                 'pad': list(pad.padding), 'want': want})
    return changed


def compare_outputs(ctx, prog, pit, exported, seed, what):
    xs = pitgen.example_inputs(prog, 4, seed + 1, scale=1.5)
    with torch.no_grad():
        try:
            y_nas = pitgen.out_tensor(pit(*xs))
        except Exception as e:
            ctx.violation('pit-forward-crash', {'sig': type(e).__name__ + ':' + str(e)[:60],
                                                'exc': repr(e)[:300], 'what': what,
                                                'features': prog.get('features')})
            return None
        try:
            y_exp = pitgen.out_tensor(exported(*xs))
        except Exception as e:
            ctx.violation('exported-forward-crash', {'sig': type(e).__name__,
                                                     'exc': repr(e)[:300], 'what': what,
                                                     'features': prog.get('features')})
            return None
    ctx.mon('c01.output_diff')
    ok, d = pitlib.close(y_nas, y_exp)
    if not ok:
        ctx.violation('output-mismatch', {'sig': what, 'max_abs_diff': d,
                                          'y_nas_max': float(y_nas.abs().max()),
                                          'shape_nas': list(y_nas.shape),
                                          'shape_exp': list(y_exp.shape),
                                          'features': prog.get('features')})
    return d


def run_sweep(case, ctx):
    K, d, r, g = case['K'], case['d'], case['r'], case['g']
    stride = case.get('stride', 1)
    prog = pitgen.single_conv_program(K, d, case['pos'], bias=case['bias'], bn=case['bn'],
                                      stride=stride)
    rng = random.Random(case['seed'])
    model, pit, xs = pitlib.convert_pit(prog, case['seed'], fold_bn=case['fold'])
    pit.eval()
    layer = dict(pitlib.pit_layers(pit))['tc']
    beta, gamma = pitlib.time_pattern_values(K, r, g, case['style'], rng)
    pitlib.set_mask(layer.timestep_masker, beta)
    pitlib.set_mask(layer.dilation_masker, gamma)
    assign = pitlib.apply_channel_masks(pit, rng, 'binary')
    if stride == 1:
        exp_alive, exp_s = pitlib.r_time_expected(K, r, g)
    else:
        exp_alive, exp_s = list(range(K)), 1     # frozen: parameters must not matter
    ctx.cls(f'sweep-K{K}-d{d}-{case["pos"]}-{case["style"]}' + ('-s2' if stride > 1 else ''))
    try:
        exported = pit.export()
    except Exception as e:
        ctx.violation('export-crash', {'sig': 'sweep:' + type(e).__name__, 'exc': repr(e)[:300],
                                       'K': K, 'd': d, 'r': r, 'g': g, 'beta': beta, 'gamma': gamma})
        return
    exported.eval()
    pitlib.sync_exported_bn(pit, exported)
    changed = check_structure(ctx, pit, exported, {'tc': (exp_alive, exp_s)})
    compare_outputs(ctx, prog, pit, exported, case['seed'], f'sweep-K{K}-r{r}-g{g}')
    if (r > 0 or g > 0 or changed) and stride == 1:
        if changed:
            ctx.nontriv(('sweep', K, d, r, g, case['pos'], case['style'], case['fold'], case['bn']))
    ctx.sample({'kind': 'sweep', 'K': K, 'd': d, 'r_pruned': r, 'g_pruned': g, 'beta': beta,
                'gamma': gamma, 'alive_taps_expected': exp_alive,
                'exported_kernel': list(dict(exported.named_modules())['tc'].kernel_size),
                'exported_dilation': list(dict(exported.named_modules())['tc'].dilation)})


def assign_time_masks(pit, rng, style):
    """Random reachable time patterns on every trainable (stride-1) causal Conv1d."""
    from plinio.methods.pit.nn import PITConv1d
    expect = {}
    for name, layer in pitlib.pit_layers(pit):
        if not isinstance(layer, PITConv1d):
            continue
        K = layer.kernel_size[0]
        causal = layer.padding in (0, (0,), 'valid')
        frozen = pitlib.is_frozen(layer.timestep_masker)
        # frozen (strided) time maskers are not reachable by an optimiser: left untouched
        if K == 1 or not causal or frozen or rng.random() < 0.25:
            continue
        import math
        glen = max(math.ceil(math.log(K, 2)), 1)
        r, g = rng.randint(0, K - 1), rng.randint(0, glen - 1)
        beta, gamma = pitlib.time_pattern_values(K, r, g, style, rng)
        pitlib.set_mask(layer.timestep_masker, beta)
        pitlib.set_mask(layer.dilation_masker, gamma)
        expect[name] = (list(range(K)), 1) if frozen else pitlib.r_time_expected(K, r, g)
    return expect


def run_random(case, ctx, gen_opts=None):
    rng = random.Random(case['prog_seed'])
    if case.get('special'):
        prog = pitgen.special_program(rng, case['family'], case['special'], case.get('delay', 0))
    elif case['kind'] == 'reuse':
        prog = pitgen.reuse_program(rng, case['family'], case['same'], case['with_bn'])
    else:
        prog = None
    # (fixed layers, residual sums with a concat / fixed operand, depthwise after a concat are part
    # of the grammar since the masker-sharing repair: PIT freezes what it cannot mask)
    prog = prog or pitgen.gen_valid_program(rng, family=case['family'], opts=gen_opts or {
        'allow_fixed': True, 'p_fixed_stem': 0.15,
        'hazards': ('add-of-cat', 'dw-after-cat', 'add-of-fixed', 'dw-after-fixed',
                    'excluded-consumer')})
    if case['kind'] == 'random' and not case.get('special') and (case['prog_seed'] // 3) % 6 == 1:
        # the same network also returning one of its intermediate tensors
        pitgen.add_second_output(prog, random.Random(case['prog_seed'] + 1))
    try:
        model, pit, xs = pitlib.convert_pit(prog, case['seed'], fold_bn=case['fold'])
    except Exception as e:
        ctx.skip(type(e).__name__ + ': ' + str(e)[:80])
        return
    pit.eval()
    mrng = random.Random(case['seed'] + 5)
    assign = pitlib.apply_channel_masks(pit, mrng, case['mask_mode'])
    from vf import neutral
    neutral.maybe_freeze(pit, case['seed'])     # a frozen parameter group changes nothing
    expect = assign_time_masks(pit, mrng, case['time_style'])
    for f in prog['features']:
        ctx.cls('feat:' + f)
    ctx.cls('mask:' + case['mask_mode'] + ('-fold' if case['fold'] else ''))
    try:
        exported = pit.export()
    except Exception as e:
        ctx.violation('export-crash', {'sig': type(e).__name__, 'exc': repr(e)[:300],
                                       'features': prog['features']})
        return
    exported.eval()
    pitlib.sync_exported_bn(pit, exported)
    changed = check_structure(ctx, pit, exported, expect)
    compare_outputs(ctx, prog, pit, exported, case['seed'], 'random')
    # the same wrapper, exported a second time after the masks moved: an alive and a pruned channel
    # of every masker trade places (the number of alive channels stays the same)
    if case['seed'] % 2 == 0:
        from plinio.methods.pit.nn.features_masker import PITFrozenFeaturesMasker
        moved = False
        with torch.no_grad():
            for names, m in pitlib.unique_maskers(pit)[0]:
                if isinstance(m, PITFrozenFeaturesMasker):
                    continue
                a = m.alpha.data
                alive = [i for i in range(a.numel() - 1) if abs(float(a[i])) > 0.5]
                dead = [i for i in range(a.numel() - 1) if abs(float(a[i])) <= 0.5]
                if alive and dead:
                    i, j = mrng.choice(alive), mrng.choice(dead)
                    a[i], a[j] = a[j].clone(), a[i].clone()
                    moved = True
        if moved:
            ctx.cls('second-export-after-masks-moved')
            try:
                exported2 = pit.export()
                exported2.eval()
                pitlib.sync_exported_bn(pit, exported2)
                compare_outputs(ctx, prog, pit, exported2, case['seed'], 'second-export')
            except Exception as e:
                ctx.violation('export-crash', {'sig': 'second:' + type(e).__name__,
                                               'exc': repr(e)[:300], 'features': prog['features']})
    pruned = any(abs(v) <= 0.5 for a in assign for v in a['alpha'] if not a['frozen']) or \
        any(len(al) < max(al) + 1 for al, _ in expect.values())
    if pruned and changed:
        ctx.nontriv(('random', case['prog_seed'], case['family'], case['mask_mode'], case['fold'],
                     case['time_style'], case['seed']))
    ctx.sample({'kind': 'random', 'family': case['family'], 'features': prog['features'],
                'n_ops': len(prog['ops']), 'mask_mode': case['mask_mode'], 'fold_bn': case['fold'],
                'channel_masks': [{'layers': a['layers'], 'frozen': a['frozen'],
                                   'alive': [int(abs(v) > 0.5) for v in a['alpha']]}
                                  for a in assign][:4],
                'time_patterns': {k: v[0] for k, v in expect.items()}})


REPO_MODELS = ['SimpleNN', 'SimpleNN2D', 'SimpleNN2D_NoBN', 'DSCNN', 'ToySequentialConv1d',
               'ToySequentialFullyConv2d', 'ToySequentialConv2d', 'ToySequentialSeparated',
               'ToyAdd', 'ToyAdd_2D', 'TCResNet14', 'TutorialModel', 'TutorialModel_NoDW']


def build_repo_model(name, seed):
    """one of the repository's own unit_test models (the shapes the maintainers care about)"""
    import importlib
    torch.manual_seed(seed)
    mod = None
    for m in ('simple_nn', 'dscnn', 'toy_models', 'tc_resnet_14', 'phd_course_model'):
        mm = importlib.import_module('unit_test.models.' + m)
        if hasattr(mm, name):
            mod = mm
            break
    cls = getattr(mod, name)
    if name == 'TCResNet14':
        model = cls({"input_channels": 6, "output_size": 12,
                     "num_channels": [24, 36, 36, 48, 48, 72, 72], "kernel_size": 9, "dropout": 0.5,
                     "grad_clip": -1, "use_bias": True, "use_dilation": True, "avg_pool": True})
        shape = (6, 50)
    else:
        model = cls()
        shape = tuple(model.input_shape)
    g = torch.Generator().manual_seed(seed)
    with torch.no_grad():
        for m in model.modules():
            if isinstance(m, (nn.BatchNorm1d, nn.BatchNorm2d)):
                m.running_mean.copy_(torch.randn(m.num_features, generator=g) * 0.3)
                m.running_var.copy_(torch.rand(m.num_features, generator=g) + 0.5)
    model.eval()
    return model, shape


def run_repo_model(case, ctx):
    from plinio.methods import PIT
    model, shape = build_repo_model(case['model'], case['seed'])
    try:
        pit = PIT(model, input_shape=shape, fold_bn=case['fold'])
    except Exception as e:
        ctx.skip('repo-model ' + case['model'] + ': ' + type(e).__name__ + ': ' + str(e)[:60])
        return
    pit.eval()
    rng = random.Random(case['seed'])
    assign = pitlib.apply_channel_masks(pit, rng, case['mask_mode'])
    ctx.cls('repo-model:' + case['model'])
    try:
        exported = pit.export()
    except Exception as e:
        ctx.violation('export-crash', {'sig': 'repo-model:' + type(e).__name__,
                                       'exc': repr(e)[:300], 'model': case['model']})
        return
    exported.eval()
    pitlib.sync_exported_bn(pit, exported)
    changed = check_structure(ctx, pit, exported, None)
    g = torch.Generator().manual_seed(case['seed'] + 1)
    x = torch.randn((3,) + tuple(shape), generator=g)
    with torch.no_grad():
        y_nas, y_exp = pit(x), exported(x)
    ctx.mon('c01.output_diff')
    ok, d = pitlib.close(y_nas, y_exp)
    if not ok:
        ctx.violation('output-mismatch', {'sig': 'repo-model:' + case['model'],
                                          'max_abs_diff': d, 'fold': case['fold'],
                                          'mask_mode': case['mask_mode']})
    if changed:
        ctx.nontriv(('repo-model', case['model'], case['mask_mode'], case['fold'], case['seed']))


def run_case(case, ctx):
    if case.get('kind') == 'repo-suite':
        from vf import suitewl
        suitewl.run(case, ctx, ('c01.time_mask_contract',))
        return
    if case['kind'] == 'sweep':
        run_sweep(case, ctx)
    elif case['kind'] == 'repo-model':
        run_repo_model(case, ctx)
    else:
        run_random(case, ctx)
