"""C13 - quantizers emit values that fit their declared bit-width and scale.

Monitor: the inequalities of the statement evaluated in float64 on (integer image, reported scale,
input) for the real MinMaxWeight / PACTAct / QuantizerBias objects, on seeded tensors, on an
exhaustive sweep of inputs placed on and next to every level boundary, and in situ (class-level
wrappers on the three forward methods) on the tensors that flow through real MPS models.
"""
import math
import random

import torch

ID = 'C13'
LEVEL = 'exploration'
RULE = ('cases = (a) exhaustive boundary sweep: for bits in {2,3,4,8} every level boundary k*step '
        'and (k+1/2)*step, each with nextafter down/up, for weights (per-channel scale set by the '
        'channel maximum, magnitudes 2^-20..2^10) and activations (clip in {0.05,0.5,1,6,100,1e3}); '
        '(b) seeded random tensors with non-zero magnitudes log-uniform in [2^-30, 2^13] incl. '
        'constant / all-zero / single-element / mixed-sign channels, weights bits 0,2..8, '
        'activations bits 2..8, bias with random and zero scales; (c) in situ: the same oracles '
        'wrapped around the three forward methods while random MPS models (per-layer and '
        'per-channel incl. 0 bit) run.  Non-trivial: a tensor with at least two distinct '
        'quantization levels or a zero-scale / 0-bit / boundary element; distinct = (quantizer, '
        'bits, tensor class, seed).')
RULE += ('  Round 4b: quantizers whose precision was set through the public setter after construction.')
ASSUMPTIONS = [
    'inequalities are evaluated in float64 on float32 results; comparisons that depend on float32 '
    'round-off (fq == int*scale, error < step, fq <= x) allow 4 ulp',
    'bias: the error bound is not claimed where the product scale is below 1e-8 (treated as zero '
    'scale by design) or where |bias/scale| exceeds 2^24',
    'denormal weights and clip values comparable to the 1e-3 stabiliser are excluded (statement)',
]
REQUIRED_MONITORS = ['c13.weight', 'c13.act', 'c13.bias', 'c13.boundary', 'c13.insitu']
MIN_NONTRIVIAL = {'quick': 400, 'thorough': 4000}
EXHAUSTIVE = {'quick': False, 'thorough': False}
EXHAUSTIVE_NOTE = 'the level-boundary sweep for bits {2,3,4,8} is complete in both tiers'

EPS32 = 2.0 ** -23
_insitu = {'on': False}


# ------------------------------------------------------------------------------------------------
# oracles (also used in situ)
# ------------------------------------------------------------------------------------------------
def check_weight(ctx, x, q_int, q_fq, scale, bits, where, extra=None):
    ctx.mon('c13.weight')
    x64, i64, f64 = x.double(), q_int.double(), q_fq.double()
    C = x.shape[0]
    s64 = scale.double().reshape([C] + [1] * (x.dim() - 1)) if scale.numel() == C else scale.double()
    d = dict(extra or {}, bits=bits, where=where)
    if not bool(torch.isfinite(f64).all()) or not bool(torch.isfinite(i64).all()):
        ctx.violation('weight-quantizer', dict(d, sig='nonfinite'))
        return
    if bits == 0:
        if bool((i64 != 0).any()) or bool((f64 != 0).any()):
            ctx.violation('weight-quantizer', dict(d, sig='0bit-not-zero'))
        return
    if bool((i64 != i64.round()).any()):
        ctx.violation('weight-quantizer', dict(d, sig='not-integer'))
    lo, hi = -2 ** (bits - 1), 2 ** (bits - 1) - 1
    if float(i64.min()) < lo or float(i64.max()) > hi:
        ctx.violation('weight-quantizer', dict(d, sig='out-of-range', min=float(i64.min()),
                                               max=float(i64.max()), lo=lo, hi=hi))
    prod = i64 * s64
    bad = (f64 - prod).abs() > 4 * EPS32 * prod.abs() + 1e-45
    if bool(bad.any()):
        j = int(bad.flatten().nonzero()[0])
        ctx.violation('weight-quantizer', dict(d, sig='fq-ne-int-times-scale',
                                               fq=float(f64.flatten()[j]),
                                               int_times_scale=float(prod.flatten()[j])))
    err = (f64 - x64).abs()
    step = s64.expand_as(x64) if s64.dim() == x64.dim() else s64
    bad = err >= step * (1 + 4 * EPS32)
    if bool(bad.any()):
        j = int(bad.flatten().nonzero()[0])
        ctx.violation('weight-quantizer', dict(d, sig='error-ge-step', x=float(x64.flatten()[j]),
                                               fq=float(f64.flatten()[j]),
                                               step=float(step.expand_as(x64).flatten()[j])))
    # monotone per channel
    xf = x64.reshape(C, -1)
    iff = i64.reshape(C, -1)
    order = xf.argsort(dim=1)
    xs = xf.gather(1, order)
    is_ = iff.gather(1, order)
    dec = (is_[:, 1:] < is_[:, :-1]) & (xs[:, 1:] > xs[:, :-1])
    if bool(dec.any()):
        ctx.violation('weight-quantizer', dict(d, sig='not-monotone'))


def check_act(ctx, x, q_int, q_fq, scale, bits, clip, where, extra=None):
    ctx.mon('c13.act')
    x64, i64, f64 = x.double().flatten(), q_int.double().flatten(), q_fq.double().flatten()
    s = float(scale)
    d = dict(extra or {}, bits=bits, clip=clip, scale=s, where=where)
    if not bool(torch.isfinite(f64).all()):
        ctx.violation('act-quantizer', dict(d, sig='nonfinite'))
        return
    if bool((i64 != i64.round()).any()):
        ctx.violation('act-quantizer', dict(d, sig='not-integer'))
    if float(i64.min()) < 0 or float(i64.max()) > 2 ** bits - 1:
        ctx.violation('act-quantizer', dict(d, sig='out-of-range', min=float(i64.min()),
                                            max=float(i64.max())))
    neg = x64 <= 0
    if bool((i64[neg] != 0).any()):
        ctx.violation('act-quantizer', dict(d, sig='nonpositive-not-zero'))
    top = x64 >= clip
    if int(top.sum()) > 0 and len(set(i64[top].tolist())) != 1:
        ctx.violation('act-quantizer', dict(d, sig='no-common-top-level',
                                            levels=sorted(set(i64[top].tolist()))[:5]))
    if int(top.sum()) > 0 and bool((i64[~top] > i64[top].max()).any()):
        ctx.violation('act-quantizer', dict(d, sig='inner-above-top-level'))
    prod = i64 * s
    bad = (f64 - prod).abs() > 4 * EPS32 * prod.abs() + 1e-45
    if bool(bad.any()):
        j = int(bad.nonzero()[0])
        ctx.violation('act-quantizer', dict(d, sig='fq-ne-int-times-scale', int=float(i64[j]),
                                            fq=float(f64[j]), int_times_scale=float(prod[j]),
                                            rel=float((f64[j] - prod[j]).abs() / prod[j].abs())))
    inside = (x64 > 0) & (x64 < clip)
    if int(inside.sum()) > 0:
        e = (x64 - f64)[inside]
        xi = x64[inside]
        bad_hi = e >= s * (1 + 4 * EPS32) + 4 * EPS32 * xi.abs()
        bad_lo = e < -(4 * EPS32 * xi.abs() + 1e-45)
        if bool(bad_hi.any()):
            j = int(bad_hi.nonzero()[0])
            ctx.violation('act-quantizer', dict(d, sig='error-ge-step', x=float(xi[j]),
                                                err=float(e[j])))
        if bool(bad_lo.any()):
            j = int(bad_lo.nonzero()[0])
            ctx.violation('act-quantizer', dict(d, sig='output-exceeds-input', x=float(xi[j]),
                                                err=float(e[j])))
    order = x64.argsort()
    xs, is_ = x64[order], i64[order]
    if bool(((is_[1:] < is_[:-1]) & (xs[1:] > xs[:-1])).any()):
        ctx.violation('act-quantizer', dict(d, sig='not-monotone'))


def check_bias(ctx, b, q_int, q_fq, scale, where, extra=None):
    ctx.mon('c13.bias')
    b64, i64, f64, s64 = b.double(), q_int.double(), q_fq.double(), scale.double()
    s64 = s64.expand_as(b64) if s64.numel() != b64.numel() else s64.reshape(b64.shape)
    d = dict(extra or {}, where=where)
    if not bool(torch.isfinite(f64).all()) or not bool(torch.isfinite(i64).all()):
        ctx.violation('bias-quantizer', dict(d, sig='nonfinite', scale=s64, bias=b64))
        return
    if bool((i64 != i64.round()).any()):
        ctx.violation('bias-quantizer', dict(d, sig='not-integer'))
    zero = s64 == 0
    if bool((f64[zero] != 0).any()):
        ctx.violation('bias-quantizer', dict(d, sig='zero-scale-not-zero'))
    # the integer image (dequantize=False, what the integer back-ends store) must be zero as well:
    # a pruned channel must not receive an integer bias
    if bool((i64[zero] != 0).any()):
        ctx.violation('bias-quantizer', dict(d, sig='zero-scale-integer-image-not-zero',
                                             bias=b64, int=i64, scale=s64))
    prod = i64 * s64
    bad = (f64 - prod).abs() > 4 * EPS32 * prod.abs() + 1e-45
    if bool(bad.any()):
        ctx.violation('bias-quantizer', dict(d, sig='fq-ne-int-times-scale'))
    # "error below one step" (statement), with float32 slack on the quotient b/s
    ok = (s64 >= 1e-6) & ((b64 / s64.clamp_min(1e-30)).abs() < 2 ** 22)
    if int(ok.sum()) > 0:
        e = (f64 - b64).abs()[ok]
        if bool((e >= s64[ok] * (1 + 4 * EPS32) + 4 * EPS32 * b64[ok].abs()).any()):
            ctx.violation('bias-quantizer', dict(d, sig='error-ge-step'))


def run_quantizer_pair(q, *args):
    """(integer image, fake-quantized image) of one quantizer object on the same input"""
    old = q.dequantize
    with torch.no_grad():
        q.dequantize = False
        qi = q(*args).clone()
        q.dequantize = True
        qf = q(*args).clone()
    q.dequantize = old
    return qi, qf


# ------------------------------------------------------------------------------------------------
def cases(tier, seed):
    cs = []
    for bits in (2, 3, 4, 8):
        for mag in ([2.0 ** -20, 2.0 ** -7, 0.37, 1.0, 13.5, 2.0 ** 10]):
            cs.append({'kind': 'wbound', 'bits': bits, 'mag': mag})
        for clip in (0.05, 0.5, 1.0, 6.0, 100.0, 1e3):
            cs.append({'kind': 'abound', 'bits': bits, 'clip': clip})
    n = 300 if tier == 'quick' else 12000
    for i in range(n):
        cs.append({'kind': 'wrand', 'bits': [0, 2, 3, 4, 5, 6, 7, 8][i % 8], 'seed': seed * 7919 + i})
        cs.append({'kind': 'arand', 'bits': [2, 3, 4, 5, 6, 7, 8][i % 7], 'seed': seed * 7919 + i})
        cs.append({'kind': 'brand', 'seed': seed * 7919 + i})
    for i in range(24 if tier == 'quick' else 900):
        cs.append({'kind': 'insitu', 'seed': seed * 31 + i, 'i': i})
    # the repository's own MPS tests (incl. the optimiser-driven searches) under the in-situ contracts
    from vf import suitewl
    cs += suitewl.cases(tier, select=('test_mps/',), slow_in_quick=('test_regularization_loss_descent_layer',))
    return cs


def worker_setup(ctx):
    """In-situ monitors: class-level wrappers on the real forward methods."""
    from plinio.methods.mps.quant.quantizers import MinMaxWeight, PACTAct, QuantizerBias
    o_w, o_a, o_b = MinMaxWeight.forward, PACTAct.forward, QuantizerBias.forward

    def w_forward(self, input):
        out = o_w(self, input)
        if _insitu['on'] and self.dequantize:
            _insitu['on'] = False
            try:
                with torch.no_grad():
                    self.dequantize = False
                    qi = o_w(self, input)
                    self.dequantize = True
                check_weight(ctx, input.detach(), qi, out.detach(), self.scale.detach(),
                             int(self.precision), 'insitu')
                ctx.mon('c13.insitu')
            finally:
                _insitu['on'] = True
        return out

    def a_forward(self, input):
        out = o_a(self, input)
        if _insitu['on'] and self.dequantize:
            _insitu['on'] = False
            try:
                with torch.no_grad():
                    self.dequantize = False
                    qi = o_a(self, input)
                    self.dequantize = True
                check_act(ctx, input.detach(), qi, out.detach(), self.scale.detach(),
                          int(self.precision), float(self.clip_val.data[0]), 'insitu')
                ctx.mon('c13.insitu')
            finally:
                _insitu['on'] = True
        return out

    def b_forward(self, input, s_a, s_w):
        out = o_b(self, input, s_a, s_w)
        if _insitu['on'] and self.dequantize:
            _insitu['on'] = False
            try:
                with torch.no_grad():
                    self.dequantize = False
                    qi = o_b(self, input, s_a, s_w)
                    self.dequantize = True
                check_bias(ctx, input.detach(), qi, out.detach(), self.scale.detach(), 'insitu')
                ctx.mon('c13.insitu')
            finally:
                _insitu['on'] = True
        return out
    MinMaxWeight.forward = w_forward
    PACTAct.forward = a_forward
    QuantizerBias.forward = b_forward


def nextafter(v, up):
    t = torch.tensor(v, dtype=torch.float32)
    return float(torch.nextafter(t, torch.tensor(float('inf') if up else float('-inf'))))


def run_case(case, ctx):
    from plinio.methods.mps.quant.quantizers import MinMaxWeight, PACTAct, QuantizerBias
    k = case['kind']
    if k == 'repo-suite':
        from vf import suitewl
        _insitu['on'] = True
        try:
            suitewl.run(case, ctx, ('c13.insitu',))
        finally:
            _insitu['on'] = False
        return
    if k == 'wbound':
        bits, M = case['bits'], case['mag']
        step = 2 * M / (2 ** bits - 1)
        pts = []
        for lev in range(-2 ** (bits - 1) - 1, 2 ** (bits - 1) + 2):
            for f in (0.0, 0.5):
                v = (lev + f) * step
                for w in (v, nextafter(v, True), nextafter(v, False)):
                    if abs(w) <= M:
                        pts.append(w)
        pts += [M, -M]
        x = torch.tensor(pts, dtype=torch.float32).reshape(1, -1)
        x = torch.cat([x, -x], 0)      # two channels, both with max |w| = M
        q = MinMaxWeight(bits, 2)
        qi, qf = run_quantizer_pair(q, x)
        ctx.mon('c13.boundary')
        check_weight(ctx, x, qi, qf, q.scale, bits, 'boundary', {'mag': M})
        ctx.nontriv(('wbound', bits, M))
        ctx.cls(f'w-boundary-b{bits}')
        ctx.sample({'kind': 'weight-boundary', 'bits': bits, 'max_abs': M, 'n_points': len(pts),
                    'levels_seen': sorted(set(qi.flatten().tolist()))[:12]})
        return
    if k == 'abound':
        bits, clip = case['bits'], case['clip']
        step = (clip + 1e-3) / (2 ** bits - 1)
        pts = [0.0, -1.0, -1e-30, clip, nextafter(clip, True), nextafter(clip, False), clip * 2,
               1e30]
        for lev in range(0, 2 ** bits + 1):
            for f in (0.0, 0.5):
                v = (lev + f) * step
                pts += [v, nextafter(v, True), nextafter(v, False)]
        x = torch.tensor(pts, dtype=torch.float32)
        q = PACTAct(bits, init_clip_val=clip)
        qi, qf = run_quantizer_pair(q, x)
        ctx.mon('c13.boundary')
        check_act(ctx, x, qi, qf, q.scale, bits, float(q.clip_val.data[0]), 'boundary')
        ctx.nontriv(('abound', bits, clip))
        ctx.cls(f'a-boundary-b{bits}')
        ctx.sample({'kind': 'act-boundary', 'bits': bits, 'clip': clip, 'n_points': len(pts),
                    'top_level': float(qi.max())})
        return
    rng = random.Random(case['seed'])
    g = torch.Generator().manual_seed(case['seed'] % (2 ** 31))
    if k == 'wrand':
        bits = case['bits']
        C = rng.randint(1, 6)
        shape = rng.choice([(C, rng.randint(1, 9)), (C, rng.randint(1, 4), 3), (C, 2, 3, 3), (C, 1)])
        mag = 2.0 ** (torch.rand(shape, generator=g) * 43 - 30)
        sign = torch.where(torch.rand(shape, generator=g) < 0.5, -1.0, 1.0)
        x = (mag * sign).float()
        classes = []
        for c in range(C):
            r = rng.random()
            if r < 0.12:
                x[c] = 0.0
                classes.append('zero')
            elif r < 0.24:
                x[c] = float(x[c].flatten()[0])
                classes.append('const')
            elif r < 0.34:
                x[c] = x[c].abs()
                classes.append('positive')
            elif r < 0.44:
                x[c] = x[c] * (2.0 ** rng.randint(-8, 8)) / float(x[c].abs().max())
                classes.append('scaled')
            else:
                classes.append('mixed')
        if case['seed'] % 4 == 2 and bits != 0:
            # (declared bit-width moved through the public setter after construction)
            q = MinMaxWeight(rng.choice([b for b in (2, 3, 4, 5, 6, 7, 8) if b != bits]), C)
            q.precision = bits
            ctx.cls('w-precision-set-after-construction')
        else:
            q = MinMaxWeight(bits, C)
        qi, qf = run_quantizer_pair(q, x)
        check_weight(ctx, x, qi, qf, q.scale, bits, 'random', {'classes': classes,
                                                             'shape': list(shape)})
        if bits == 0 or len(set(qi.flatten().tolist())) >= 2:
            ctx.nontriv(('wrand', bits, tuple(classes), case['seed']))
        ctx.cls(f'w-b{bits}')
        return
    if k == 'arand':
        bits = case['bits']
        clip = 10 ** rng.uniform(math.log10(0.05), 3)
        n = rng.choice([1, 7, 64, 300])
        mag = 2.0 ** (torch.rand(n, generator=g) * 43 - 30)
        x = mag * torch.where(torch.rand(n, generator=g) < 0.3, -1.0, 1.0)
        if rng.random() < 0.5:
            x = torch.rand(n, generator=g) * clip * 1.3 - 0.1 * clip
        x = x.float()
        if case['seed'] % 4 == 3:
            # the declared bit-width moved after construction (public `precision` setter of the
            # quantizers' base class): the object must behave as one built at that precision
            q = PACTAct(rng.choice([b for b in (2, 3, 4, 5, 6, 7, 8) if b != bits]),
                        init_clip_val=clip)
            q.precision = bits
            ctx.cls('a-precision-set-after-construction')
        else:
            q = PACTAct(bits, init_clip_val=clip)
        qi, qf = run_quantizer_pair(q, x)
        check_act(ctx, x, qi, qf, q.scale, int(q.precision), float(q.clip_val.data[0]), 'random')
        if len(set(qi.tolist())) >= 2:
            ctx.nontriv(('arand', bits, case['seed']))
        ctx.cls(f'a-b{bits}')
        return
    if k == 'brand':
        C = rng.randint(1, 8)
        b = (torch.randn(C, generator=g) * 10 ** rng.uniform(-3, 2)).float()
        s_a = torch.tensor(10 ** rng.uniform(-5, 0))
        s_w = (10 ** (torch.rand(C, generator=g) * 6 - 6)).float()
        zero = torch.rand(C, generator=g) < 0.3
        s_w[zero] = 0.0
        if rng.random() < 0.2:
            s_w[:] = 0.0
        q = QuantizerBias(32, C)
        qi, qf = run_quantizer_pair(q, b, s_a, s_w)
        check_bias(ctx, b, qi, qf, q.scale, 'random', {'s_a': float(s_a), 's_w': s_w})
        # monotone: a second, component-wise larger bias must not quantize lower
        b2 = b + (torch.rand(C, generator=g) * 10 ** rng.uniform(-4, 1)).float()
        qi2, _ = run_quantizer_pair(q, b2, s_a, s_w)
        if bool((qi2 < qi).any()):
            ctx.violation('bias-quantizer', {'sig': 'not-monotone', 'b': b, 'b2': b2,
                                             'int': qi, 'int2': qi2})
        ctx.nontriv(('brand', case['seed']))
        ctx.cls('bias-zero-scale' if bool(zero.any()) else 'bias')
        if case['seed'] % 50 == 0:
            ctx.sample({'kind': 'bias', 'bias': b, 's_a': float(s_a), 's_w': s_w, 'int': qi})
        return
    if k == 'insitu':
        from vf import mpslib
        _insitu['on'] = True
        try:
            mpslib.insitu_workload(case, ctx)
        finally:
            _insitu['on'] = False
        ctx.cls('insitu')
        ctx.nontriv(('insitu', case['seed']))
