"""Process bootstrap shared by the parent and by every worker.

* puts the repository under test first on sys.path ($VERIF_REPO, default /repo) and asserts that
  `plinio` is really imported from that tree (the /venv install is an editable link to /repo, a
  scratch copy must win over it);
* makes icontract / deal importable from /verif/.deps (installed from the offline wheelhouse by
  `setup.sh`; appended to sys.path so that they can never shadow anything from /venv);
* pins torch to one thread and makes everything deterministic.
"""
import os
import sys
import subprocess

VERIF_DIR = os.path.dirname(os.path.dirname(os.path.abspath(__file__)))
REPO = os.path.abspath(os.environ.get('VERIF_REPO', '/repo'))
DEPS = os.path.join(VERIF_DIR, '.deps')
WHEELS = '/opt/veriftools/wheels'

_done = False


def ensure_deps():
    """Install icontract + deal into /verif/.deps from the offline wheelhouse when absent."""
    marker = os.path.join(DEPS, 'icontract')
    if os.path.isdir(marker) and os.path.isdir(os.path.join(DEPS, 'deal')):
        return True
    os.makedirs(DEPS, exist_ok=True)
    cmd = [sys.executable, '-m', 'pip', 'install', '--quiet', '--no-index', '--find-links', WHEELS,
           '--target', DEPS, '--no-deps', 'icontract', 'deal', 'asttokens', 'six',
           'typing_extensions']
    env = dict(os.environ, PIP_NO_INDEX='1', PIP_DISABLE_PIP_VERSION_CHECK='1')
    try:
        subprocess.run(cmd, check=True, env=env, timeout=600,
                       stdout=subprocess.DEVNULL, stderr=subprocess.DEVNULL)
    except Exception:
        return False
    return os.path.isdir(marker)


def setup(import_torch=True):
    global _done
    if _done:
        return
    _done = True
    os.environ.setdefault('PYTHONHASHSEED', '0')
    os.environ['PLINIO_VERIF'] = '1'
    os.environ.setdefault('OMP_NUM_THREADS', '1')
    os.environ.setdefault('MKL_NUM_THREADS', '1')
    # the repository under test wins over the editable install
    if REPO in sys.path:
        sys.path.remove(REPO)
    sys.path.insert(0, REPO)
    if VERIF_DIR not in sys.path:
        sys.path.insert(1, VERIF_DIR)
    if os.path.isdir(DEPS) and DEPS not in sys.path:
        sys.path.append(DEPS)
    if import_torch:
        import warnings
        warnings.filterwarnings('ignore')
        import torch
        torch.set_num_threads(1)
        try:
            torch.set_num_interop_threads(1)
        except RuntimeError:
            pass
        import plinio
        pf = os.path.abspath(plinio.__file__)
        if not pf.startswith(REPO + os.sep):
            raise RuntimeError(f'plinio imported from {pf}, expected under {REPO}')


def repo_fingerprint():
    """sha of HEAD + hash of the working-tree diff of the repository under test."""
    import hashlib
    try:
        head = subprocess.run(['git', '-C', REPO, 'rev-parse', 'HEAD'], capture_output=True,
                              text=True, timeout=30).stdout.strip()
        diff = subprocess.run(['git', '-C', REPO, 'diff', 'HEAD', '--', 'plinio'],
                              capture_output=True, timeout=30).stdout
        return {'repo': REPO, 'head': head,
                'diff_sha': hashlib.sha256(diff).hexdigest()[:16] if diff else 'clean'}
    except Exception as e:  # not a git tree (scratch copy)
        return {'repo': REPO, 'head': 'n/a', 'diff_sha': str(e)[:40]}
