"""G-PIT: grammar of PIT-supported programs (1D and 2D families).

A program is a JSON description (the replay format); `build(prog)` turns it into an nn.Module
whose forward is a straight-line interpreter over the op list, which torch.fx traces without
trouble.  Everything is deterministic given the description and the torch seed.
"""
import operator
import random

import torch
import torch.nn as nn
import torch.nn.functional as F


# ------------------------------------------------------------------------------------------------
# module construction
# ------------------------------------------------------------------------------------------------
class _Prog(nn.Module):
    def __init__(self, prog):
        super().__init__()
        self._prog = prog
        self._ops = prog['ops']
        self._record = None
        dim = 1 if prog['family'] == '1d' else 2
        Conv = nn.Conv1d if dim == 1 else nn.Conv2d
        for op in self._ops:
            k = op['op']
            if k == 'conv' and op['pad'] == 'causal':
                # the explicit left padding PIT prescribes: by default one module per layer (shared
                # by all of its invocations); `pad_mod` names another one (one per call site, or one
                # shared by several layers)
                pname = op.get('pad_mod') or (op['name'] + '_pad')
                if not hasattr(self, pname):
                    self.add_module(pname, nn.ConstantPad1d(((op['k'] - 1) * op['d'], 0), 0))
            if op.get('reuse'):
                continue
            if k == 'conv':
                groups = op['cin'] if op.get('dw') else 1
                pad = op['pad']
                if pad == 'causal':
                    pad = 0
                elif pad == 'none':
                    pad = 0
                if pad == 0 and op.get('valid_str'):
                    pad = 'valid'        # the same padding, spelled as PyTorch's string
                # optional non-square kernel / per-axis dilation / padding (integer back-end tests)
                ksz = tuple(op['kshape']) if 'kshape' in op else op['k']
                dil = tuple(op['dshape']) if 'dshape' in op else op['d']
                if 'pshape' in op:
                    pad = tuple(op['pshape'])
                layer = Conv(op['cin'], op['cout'], ksz, stride=op['s'], padding=pad,
                             dilation=dil, groups=groups, bias=op['bias'],
                             padding_mode=op.get('pmode', 'zeros'))
                if op.get('pit'):
                    layer = _user_pit_layer(layer, op)
                self.add_module(op['name'], layer)
            elif k == 'lin':
                layer = nn.Linear(op['fin'], op['fout'], bias=op['bias'])
                if op.get('pit'):
                    layer = _user_pit_layer(layer, op)
                self.add_module(op['name'], layer)
            elif k == 'bn':
                BN = nn.BatchNorm2d if op['bdim'] == 2 else nn.BatchNorm1d
                self.add_module(op['name'], BN(op['c'], affine=op.get('affine', True),
                                               eps=op.get('eps', 1e-5),
                                               momentum=op.get('momentum', 0.1)))
            elif k == 'act' and op['kind'] in ('relu_mod', 'relu6_mod', 'drop', 'ident'):
                m = {'relu_mod': nn.ReLU(), 'relu6_mod': nn.ReLU6(), 'drop': nn.Dropout(0.3),
                     'ident': nn.Identity()}[op['kind']]
                self.add_module(op['name'], m)
            elif k == 'pool':
                if dim == 1:
                    m = {'max': nn.MaxPool1d(op['k']), 'avg': nn.AvgPool1d(op['k']),
                         'aavg': nn.AdaptiveAvgPool1d(1)}[op['kind']]
                else:
                    m = {'max': nn.MaxPool2d(op['k']), 'avg': nn.AvgPool2d(op['k']),
                         'aavg': nn.AdaptiveAvgPool2d(1)}[op['kind']]
                self.add_module(op['name'], m)
            elif k == 'flat' and op['kind'] == 'mod':
                self.add_module(op['name'], nn.Flatten(1))

    def _run(self, vals):
        for op in self._ops:
            k = op['op']
            if k == 'conv':
                x = vals[op['src']]
                if op['pad'] == 'causal':
                    x = getattr(self, op.get('pad_mod') or (op['name'] + '_pad'))(x)
                y = getattr(self, op['name'])(x)
            elif k in ('lin', 'bn', 'pool'):
                y = getattr(self, op['name'])(vals[op['src']])
            elif k == 'act':
                x = vals[op['src']]
                kind = op['kind']
                if kind in ('relu_mod', 'relu6_mod', 'drop', 'ident'):
                    y = getattr(self, op['name'])(x)
                elif kind == 'relu_f':
                    y = F.relu(x)
                elif kind == 'relu_t':
                    y = torch.relu(x)
                elif kind == 'relu6_f':
                    y = F.relu6(x)
                elif kind == 'sigmoid':
                    y = torch.sigmoid(x)
                elif kind == 'tanh':
                    y = torch.tanh(x)
                else:
                    raise ValueError(kind)
            elif k == 'add':
                a, b = vals[op['srcs'][0]], vals[op['srcs'][1]]
                y = torch.add(a, b) if op.get('kind') == 'torch' else operator.add(a, b)
            elif k == 'cat':
                if op.get('kw') == 'axis':      # numpy-style keyword accepted by torch.cat
                    y = torch.cat([vals[s] for s in op['srcs']], axis=op['dim'])
                else:
                    y = torch.cat([vals[s] for s in op['srcs']], dim=op['dim'])
            elif k == 'flat':
                x = vals[op['src']]
                if op['kind'] == 'mod':
                    y = getattr(self, op['name'])(x)
                elif op['kind'] == 'meth':
                    y = x.flatten(1)
                else:
                    y = torch.flatten(x, 1)
            elif k == 'squeeze':
                x = vals[op['src']]
                y = x.squeeze(op['dim']) if op.get('kind', 'meth') == 'meth' \
                    else torch.squeeze(x, op['dim'])
            else:
                raise ValueError(k)
            vals[op['out']] = y
        if self._record is not None:
            self._record.update(vals)
        y = vals[self._prog['out']]
        # the network may hand its output back inside a one-element container, or return a second
        # tensor (`out2`: any tensor of the program) next to it
        oc = self._prog.get('out_container')
        if oc == 'tuple1':
            return (y,)
        if oc == 'list1':
            return [y]
        if oc == 'dict1':
            return {'logits': y}
        if oc == 'tuple2':
            return y, vals[self._prog['out2']]
        if oc == 'list2':
            return [vals[self._prog['out2']], y]
        if oc == 'dict2':
            return {'logits': y, 'aux': vals[self._prog['out2']]}
        return y


def out_tensor(y):
    """the output of a program as ONE tensor, whatever container it comes in: a single tensor as it
    is; several tensors flattened per sample and concatenated in a canonical order (so that shape and
    value comparisons cover every output)"""
    if isinstance(y, dict):
        parts = [y[k] for k in sorted(y)]
    elif isinstance(y, (tuple, list)):
        parts = list(y)
    else:
        return y
    if len(parts) == 1:
        return parts[0]
    return torch.cat([t.flatten(1) for t in parts], 1)


def add_second_output(prog, rng):
    """the same network also returning one of its intermediate tensors (tuple / list / dict of two):
    the layers that tensor's width is tied to become output-connected, too"""
    pre_bn = {op['src'] for op in prog['ops'] if op['op'] == 'bn'}     # PLiNIO refuses a second user
    cands = [op['out'] for op in prog['ops'] if op['out'] != prog['out'] and
             op['out'] not in pre_bn and op['op'] in ('conv', 'lin', 'act', 'bn', 'add', 'pool')]
    if not cands or prog.get('out_container'):
        return prog
    prog['out2'] = rng.choice(cands)
    prog['out_container'] = rng.choice(['tuple2', 'list2', 'dict2'])
    prog['features'] = sorted(set(prog['features']) | {'two-outputs', 'output-in-container'})
    return prog


def _user_pit_layer(layer, op):
    """A searchable layer placed by the user (autoconvert_layers=False)."""
    from plinio.methods.pit.nn import PITConv1d, PITConv2d, PITLinear
    from plinio.methods.pit.nn.features_masker import PITFeaturesMasker, PITFrozenFeaturesMasker
    from plinio.methods.pit.nn.timestep_masker import PITTimestepMasker
    from plinio.methods.pit.nn.dilation_masker import PITDilationMasker
    width = layer.out_features if isinstance(layer, nn.Linear) else layer.out_channels
    fm = PITFrozenFeaturesMasker(width) if op.get('pit') == 'frozen' else PITFeaturesMasker(width)
    if isinstance(layer, nn.Conv1d):
        K = layer.kernel_size[0]
        return PITConv1d(layer, fm, PITTimestepMasker(K), PITDilationMasker(K))
    if isinstance(layer, nn.Conv2d):
        return PITConv2d(layer, fm)
    return PITLinear(layer, fm)


class Prog1(_Prog):
    def forward(self, x0):
        return self._run({'x0': x0})


class Prog2(_Prog):
    def forward(self, x0, x1):
        return self._run({'x0': x0, 'x1': x1})


class Prog3(_Prog):
    def forward(self, x0, x1, x2):
        return self._run({'x0': x0, 'x1': x1, 'x2': x2})


def build(prog, seed=0, randomize_bn=True):
    """Instantiate the program with seeded random weights (and non-trivial BN statistics)."""
    g = torch.Generator().manual_seed(int(seed) % (2 ** 31))
    st = torch.random.get_rng_state()
    torch.manual_seed(int(seed) % (2 ** 31))
    m = {1: Prog1, 2: Prog2, 3: Prog3}[len(prog['inputs'])](prog)
    with torch.no_grad():
        for mod in m.modules():
            if isinstance(mod, (nn.BatchNorm1d, nn.BatchNorm2d)) and randomize_bn:
                mod.running_mean.copy_(torch.randn(mod.num_features, generator=g) * 0.5)
                mod.running_var.copy_(torch.rand(mod.num_features, generator=g) * 1.5 + 0.3)
                if mod.affine:
                    mod.weight.copy_(torch.rand(mod.num_features, generator=g) * 1.5 + 0.3)
                    mod.bias.copy_(torch.randn(mod.num_features, generator=g) * 0.5)
            if isinstance(mod, (nn.Conv1d, nn.Conv2d, nn.Linear)) and mod.bias is not None:
                mod.bias.copy_(torch.randn(mod.bias.shape, generator=g) * 0.5)
    torch.random.set_rng_state(st)
    m.eval()
    return m


def example_inputs(prog, batch=1, seed=0, scale=1.0):
    g = torch.Generator().manual_seed(int(seed) % (2 ** 31) + 17)
    xs = [torch.randn([batch] + list(s), generator=g) * scale for s in prog['inputs']]
    return xs


def input_example_arg(prog, xs):
    """What PIT's `input_example` wants: a tensor, or a tuple for multi-input forwards."""
    return xs[0] if len(xs) == 1 else tuple(xs)


# ------------------------------------------------------------------------------------------------
# random generation
# ------------------------------------------------------------------------------------------------
class Builder:
    def __init__(self, rng, family, opts=None):
        self.rng = rng
        self.family = family
        self.dim = 1 if family == '1d' else 2
        self.ops = []
        self.shapes = {}     # tensor name -> shape (no batch)
        self.origin = {}     # tensor name -> 'input' | 'search' | 'fixed' | 'mixed'
        self.n = 0
        self.excluded = []   # layer names to be excluded from the search
        self.opts = opts or {}
        self.features = set()
        self.traits = set()   # hazard constructs (known-finding mechanisms) actually present

    def fresh(self, p='t'):
        self.n += 1
        return f'{p}{self.n}'

    def lname(self, p):
        self.n += 1
        return f'{p}{self.n}'

    def emit(self, op, shape, origin):
        self.ops.append(op)
        self.shapes[op['out']] = tuple(shape)
        self.origin[op['out']] = origin

    # --- productions ---------------------------------------------------------------------------
    def conv(self, src, cout=None, k=None, d=None, s=1, pad=None, dw=False, bias=None,
             excluded=False, name=None):
        rng = self.rng
        shp = self.shapes[src]
        cin = shp[0]
        if dw:
            cout = cin
        if cout is None:
            cout = rng.randint(1, self.opts.get('max_c', 8))
        if bias is None:
            bias = rng.random() < 0.6
        if self.dim == 1:
            L = shp[1]
            if k is None:
                k = rng.choice([1, 2, 3, 3, 4, 5, 6, 7, 8, 9])
            if d is None:
                d = rng.choice([1, 1, 2, 3])
            if pad is None:
                pad = rng.choice(['causal', 'causal', 'causal', 'same'])
            if k == 1 and pad != 'causal':
                pad = rng.choice(['none', 'same'])
            if pad == 'same':
                s = 1
            if pad == 'causal':
                lout = (L - 1) // s + 1
            elif pad == 'same':
                lout = L
            else:
                lout = (L - (k - 1) * d - 1) // s + 1
            if lout < 1:
                return None
            oshape = (cout, lout)
        else:
            H, W = shp[1], shp[2]
            if k is None:
                k = rng.choice([1, 3, 3, 5])
            if d is None:
                d = rng.choice([1, 1, 1, 2])
            if pad is None:
                pad = rng.choice(['same', k // 2, 0, (k // 2) * d])
            if pad == 'same':
                s = 1
                ho, wo = H, W
            else:
                ho = (H + 2 * pad - d * (k - 1) - 1) // s + 1
                wo = (W + 2 * pad - d * (k - 1) - 1) // s + 1
            if ho < 1 or wo < 1:
                return None
            oshape = (cout, ho, wo)
            nonsq = None
            if self.opts.get('nonsquare') and rng.random() < 0.2:
                # per-axis geometry: non-square kernel, unequal dilation / padding / stride
                same = pad == 'same'
                kh, kw = rng.choice([(1, 3), (3, 1), (3, 5), (5, 3), (1, 5)] +
                                    ([] if same else [(2, 3), (3, 2)]))
                dh, dw_ = rng.choice([(1, 1), (1, 2), (2, 1)])
                sh, sw = (1, 1) if s == 1 else rng.choice([(s, 1), (1, s), (s, s)])
                ph = (kh - 1) * dh // 2 if same else rng.choice([0, (kh - 1) * dh // 2])
                pw = (kw - 1) * dw_ // 2 if same else rng.choice([0, (kw - 1) * dw_ // 2])
                ho2 = (H + 2 * ph - dh * (kh - 1) - 1) // sh + 1
                wo2 = (W + 2 * pw - dw_ * (kw - 1) - 1) // sw + 1
                if same and rng.random() < 0.4:
                    # padding='same' kept as a string with an even kernel side: PyTorch pads
                    # asymmetrically (one more row / column at the end)
                    kh, kw = rng.choice([(2, 3), (3, 2), (2, 2), (4, 3), (1, 2)])
                    nonsq = {'kshape': [kh, kw], 'dshape': [dh, dw_], 's': [1, 1]}
                    self.features.add('same-padding-even-kernel')
                elif ho2 >= 1 and wo2 >= 1:
                    nonsq = {'kshape': [kh, kw], 'dshape': [dh, dw_], 'pshape': [ph, pw],
                             's': [sh, sw]}
                    oshape = (cout, ho2, wo2)
                    pad = 0
        name = name or self.lname('dw' if dw else 'conv')
        out = self.fresh()
        op = {'op': 'conv', 'name': name, 'src': src, 'out': out, 'cin': cin, 'cout': cout,
              'k': k, 'd': d, 's': s, 'bias': bias, 'pad': pad, 'dw': dw}
        if self.dim == 1 and pad in ('causal', 'none') and rng.random() < 0.3:
            op['valid_str'] = True
            self.features.add('padding-valid-string')
        if self.dim == 2 and nonsq:
            op.update(nonsq)
            s = max(nonsq['s'])
            self.features.add('per-axis-geometry')
        if self.dim == 2 and self.opts.get('pmodes') and k % 2 == 1 and 'kshape' not in op:
            # non-zero padding modes (only where the padding is non-empty and fits the input)
            eff = d * (k - 1) // 2 if pad == 'same' else pad
            if 0 < eff < min(shp[1], shp[2]) and rng.random() < 0.4:
                op['pmode'] = rng.choice(['reflect', 'replicate', 'circular'])
                self.features.add('padding-mode')
        if excluded:
            self.excluded.append(name)
            op['excluded'] = True
        self.emit(op, oshape, 'fixed' if excluded else ('search' if not dw else self.origin[src]))
        self.features.add('dw' if dw else 'conv')
        if excluded:
            self.features.add('excluded')
        if s > 1:
            self.features.add('stride')
        return out

    def reuse(self, name, src):
        """Invoke an existing conv/linear layer a second time."""
        proto = next(o for o in self.ops if o.get('name') == name and not o.get('reuse'))
        op = dict(proto)
        op['reuse'] = True
        op['src'] = src
        op['out'] = self.fresh()
        # same layer on a same-channel tensor; spatial size may differ
        shp = self.shapes[src]
        if proto['op'] == 'lin':
            oshape = (proto['fout'],)
        else:
            m = build({'family': self.family, 'inputs': [list(shp)], 'ops': [dict(proto, src='x0', reuse=False)],
                       'out': proto['out']})
            with torch.no_grad():
                oshape = tuple(m(torch.zeros([1] + list(shp))).shape[1:])
        self.emit(op, oshape, self.origin[proto['out']])
        self.features.add('reuse')
        return op['out']

    def lin(self, src, fout=None, bias=None, excluded=False):
        rng = self.rng
        fin = self.shapes[src][0]
        if fout is None:
            fout = rng.randint(1, self.opts.get('max_f', 10))
        if bias is None:
            bias = rng.random() < 0.6
        name = self.lname('fc')
        out = self.fresh()
        op = {'op': 'lin', 'name': name, 'src': src, 'out': out, 'fin': fin, 'fout': fout,
              'bias': bias}
        if excluded:
            self.excluded.append(name)
            op['excluded'] = True
        self.emit(op, (fout,), 'fixed' if excluded else 'search')
        self.features.add('lin')
        return out

    def bn(self, src):
        shp = self.shapes[src]
        bdim = 2 if len(shp) == 3 else 1
        name = self.lname('bn')
        out = self.fresh()
        # eps is a hyper-parameter of the layer (not in the state_dict): a conversion or export that
        # re-creates the BatchNorm must carry it over
        eps = self.rng.choice([1e-5, 1e-5, 1e-3, 1e-2, 5e-2])
        momentum = self.rng.choice([0.1, 0.1, 0.01, 0.5])
        self.emit({'op': 'bn', 'name': name, 'src': src, 'out': out, 'c': shp[0], 'bdim': bdim,
                   'affine': True, 'eps': eps, 'momentum': momentum}, shp, self.origin[src])
        self.features.add('bn')
        if eps != 1e-5:
            self.features.add('bn-eps')
        return out

    def act(self, src, kind=None):
        kind = kind or self.rng.choice(['relu_mod', 'relu_f', 'relu_t', 'relu6_mod', 'relu6_f',
                                        'drop', 'ident'])
        out = self.fresh()
        op = {'op': 'act', 'kind': kind, 'src': src, 'out': out}
        if kind in ('relu_mod', 'relu6_mod', 'drop', 'ident'):
            op['name'] = self.lname('act')
        self.emit(op, self.shapes[src], self.origin[src])
        return out

    def pool(self, src, kind=None):
        shp = self.shapes[src]
        kind = kind or self.rng.choice(['max', 'avg'])
        if kind == 'aavg':
            oshape = (shp[0],) + (1,) * (len(shp) - 1)
            k = 0
        else:
            k = 2
            if min(shp[1:]) < 2:
                return src
            oshape = (shp[0],) + tuple(x // 2 for x in shp[1:])
        out = self.fresh()
        self.emit({'op': 'pool', 'kind': kind, 'k': k, 'name': self.lname('pool'), 'src': src,
                   'out': out}, oshape, self.origin[src])
        self.features.add('pool')
        return out

    def add(self, a, b):
        assert self.shapes[a] == self.shapes[b], (self.shapes[a], self.shapes[b])
        out = self.fresh()
        org = 'cat' if 'cat' in (self.origin[a], self.origin[b]) else 'mixed'
        self.emit({'op': 'add', 'srcs': [a, b], 'kind': self.rng.choice(['op', 'torch']),
                   'out': out}, self.shapes[a], org)
        self.features.add('add')
        return out

    def cat(self, srcs, dim=1, spelled=None):
        shp = list(self.shapes[srcs[0]])
        for s in srcs[1:]:
            shp[dim - 1] += self.shapes[s][dim - 1]
        out = self.fresh()
        # `spelled`: the same axis written as a negative index (torch.cat(..., dim=-1))
        self.emit({'op': 'cat', 'srcs': list(srcs), 'dim': dim if spelled is None else spelled,
                   'axis': dim, 'out': out}, shp, 'cat' if dim == 1 else 'mixed')
        if spelled is not None:
            self.features.add('cat-negative-dim')
        self.features.add('cat' if dim == 1 else 'tcat')
        org = '-'.join(sorted(self.origin[s] for s in srcs))
        if dim == 1:
            self.features.add('cat:' + org)
        return out

    def flat(self, src, kind=None):
        shp = self.shapes[src]
        kind = kind or self.rng.choice(['mod', 'meth', 'fn'])
        out = self.fresh()
        op = {'op': 'flat', 'kind': kind, 'src': src, 'out': out}
        if kind == 'mod':
            op['name'] = self.lname('flat')
        n = 1
        for x in shp:
            n *= x
        self.emit(op, (n,), self.origin[src])
        self.features.add('flat')
        if n != shp[0]:
            self.features.add('flat-spatial')
        return out

    def squeeze(self, src, dim):
        shp = list(self.shapes[src])
        assert shp[dim - 1] == 1
        del shp[dim - 1]
        out = self.fresh()
        self.emit({'op': 'squeeze', 'src': src, 'dim': dim, 'out': out,
                   'kind': self.rng.choice(['meth', 'fn'])}, shp, self.origin[src])
        self.features.add('squeeze')
        return out

    # --- composite blocks ---------------------------------------------------------------------
    def maybe_bn_act(self, t, p_bn=0.5, p_act=0.7):
        if self.rng.random() < p_bn:
            t = self.bn(t)
        if self.rng.random() < p_act:
            t = self.act(t)
        return t

    def conv_block(self, t, **kw):
        o = self.conv(t, **kw)
        if o is None:
            return t
        return self.maybe_bn_act(o)

    def same_shape_conv(self, t, cout=None, **kw):
        """conv that preserves the spatial size (stride 1, causal/same padding)"""
        if self.dim == 1:
            return self.conv(t, cout=cout, s=1, pad=self.rng.choice(['causal', 'causal', 'same']),
                             **kw)
        return self.conv(t, cout=cout, s=1, pad='same', **kw)

    def residual_block(self, t):
        c = self.shapes[t][0]
        last = self.ops[-1] if self.ops else None
        if last is not None and last.get('out') == t and last['op'] == 'conv' and \
                not last.get('excluded') and self.rng.random() < 0.5:
            # the skip is taken right after a BatchNorm: the Conv+BN pair's output has two consumers
            t = self.bn(t)
            self.features.add('bn-output-two-consumers')
        a = self.same_shape_conv(t)
        a = self.maybe_bn_act(a)
        b = self.same_shape_conv(a, cout=c if self.rng.random() < 0.6 else None)
        if self.rng.random() < 0.5:
            b = self.bn(b)
        cb = self.shapes[b][0]
        # a residual sum with a channel-concat operand cannot share one masker (known finding
        # pit-add-of-concat): only drawn when explicitly allowed
        hz = {'cat': 'add-of-cat', 'fixed': 'add-of-fixed'}.get(self.origin[t])
        skip_ok = hz is None or hz in self.opts.get('hazards', ())
        if cb == c and skip_ok and self.rng.random() < 0.7:
            skip = t
            if hz:
                self.traits.add(hz)
        else:
            skip = self.same_shape_conv(t, cout=cb, k=1)
            if self.rng.random() < 0.3:
                skip = self.bn(skip)
        o = self.add(b, skip)
        if self.rng.random() < 0.6:
            o = self.act(o)
        return o

    def cat_block(self, t, extra_inputs=()):
        n = self.rng.choice([2, 2, 3])
        pool = ['search', 'search', 'fixed', 'input'] if self.opts.get('allow_fixed', False) \
            else ['search', 'search', 'input']
        kinds = [self.rng.choice(pool) for _ in range(n)]
        return self.cat_of(t, kinds, extra_inputs)

    def cat_of(self, t, kinds, extra_inputs=()):
        srcs = []
        used_inputs = set()
        for kind in kinds:
            if kind == 'search':
                o = self.same_shape_conv(t)
                o = self.maybe_bn_act(o, 0.3, 0.5)
            elif kind == 'fixed':
                if self.origin[t] != 'input' and 'excluded-consumer' not in self.opts.get('hazards', ()):
                    o = self.same_shape_conv(t)
                    srcs.append(self.maybe_bn_act(o, 0.3, 0.5))
                    continue
                if self.origin[t] != 'input':
                    self.traits.add('excluded-consumer')
                o = self.same_shape_conv(t, excluded=True)
                if self.rng.random() < 0.4:
                    o = self.act(o)
            else:  # the tensor itself / a network input with the same spatial size
                cands = [x for x in (t,) + tuple(extra_inputs)
                         if self.shapes[x][1:] == self.shapes[t][1:] and x not in srcs
                         and x not in used_inputs]
                if not cands:
                    o = self.same_shape_conv(t)
                else:
                    o = self.rng.choice(cands)
                    used_inputs.add(o)
            srcs.append(o)
        # operands must be distinct tensors (fx de-duplicates a repeated operand; DESIGN sec. 7)
        assert len(set(srcs)) == len(srcs)
        return self.cat(srcs, 1)

    def dense_block(self, t, depth=None):
        """DenseNet-style chain: each stage concatenates the running tensor with a new layer's output
        (a concat of a concat of a concat ...)"""
        for _ in range(depth or self.rng.choice([3, 3, 4])):
            c = self.same_shape_conv(t, cout=self.rng.randint(1, 3))
            c = self.maybe_bn_act(c, 0.2, 0.5)
            t = self.cat([t, c], 1)
        self.features.add('dense-chain')
        return t

    def tcat_block(self, t):
        a = self.same_shape_conv(t)
        c = self.shapes[a][0]
        b = self.same_shape_conv(t, cout=c)
        rank = len(self.shapes[a]) + 1
        if self.rng.random() < 0.4:
            # last axis, spelled with a negative index
            return self.cat([a, b], dim=rank - 1, spelled=-1)
        return self.cat([a, b], dim=2)

    def dw_block(self, t):
        o = self.conv(t, dw=True, s=1,
                      pad=('same' if self.dim == 2 else self.rng.choice(['causal', 'same'])))
        if o is None:
            return t
        o = self.maybe_bn_act(o)
        if self.rng.random() < 0.7:
            o2 = self.conv(o, k=1, pad='none' if self.dim == 1 else 0, s=1, d=1)
            o = self.maybe_bn_act(o2)
        return o

    def trailing(self, o):
        """an op between the last layer and the network output (the layer stays output-connected)"""
        r = self.rng.random()
        if r < 0.7:
            return o
        if len(self.shapes[o]) > 1 and r < 0.8:
            self.features.add('trailing-flatten')
            return self.flat(o)
        self.features.add('trailing-act')
        return self.act(o, self.rng.choice(['sigmoid', 'tanh', 'relu_f', 'relu_mod']))

    def multiscale_head(self, t):
        """two branches at different spatial sizes, each flattened, concatenated, classifier"""
        # (roll the builder back when the head does not fit: no dead layers in a program)
        saved = (len(self.ops), self.n, set(self.features), list(self.excluded))

        def rollback():
            for op in self.ops[saved[0]:]:
                self.shapes.pop(op['out'], None)
                self.origin.pop(op['out'], None)
            del self.ops[saved[0]:]
            self.n, self.features, self.excluded = saved[1], saved[2], saved[3]
            return None
        a = self.same_shape_conv(t)
        a = self.act(a, 'relu_f')
        b = self.pool(a, self.rng.choice(['max', 'avg']))
        if b == a:
            return rollback()
        b = self.same_shape_conv(b)
        fa, fb = self.flat(a), self.flat(b)
        if self.shapes[fa][0] + self.shapes[fb][0] > 600:
            return rollback()
        o = self.cat([fa, fb], 1)
        self.features.add('multiscale-flatten-cat')
        return self.lin(o, fout=self.rng.randint(1, 6))

    def head(self, t):
        return self.trailing(self._head(t))

    def _head(self, t):
        rng = self.rng
        shp = self.shapes[t]
        if rng.random() < 0.12 and min(shp[1:]) >= 2:
            o = self.multiscale_head(t)
            if o is not None:
                return o
        style = rng.choice(['flat', 'flat', 'gap', 'conv', 'gap-squeeze'])
        n = 1
        for x in shp:
            n *= x
        if style == 'flat' and n > 400:
            style = 'gap'
        if style == 'conv':
            o = self.conv(t, k=1 if rng.random() < 0.5 else None)
            if o is None:
                o = self.conv(t, k=1, pad='none' if self.dim == 1 else 0, s=1, d=1)
            return o
        if style == 'flat':
            o = self.flat(t)
        elif style == 'gap':
            o = self.pool(t, 'aavg')
            o = self.flat(o)
        else:
            o = self.pool(t, 'aavg')
            if self.dim == 2:
                o = self.squeeze(o, 3)
                o = self.squeeze(o, 2)
            else:
                o = self.squeeze(o, 2)
        if rng.random() < 0.5:
            o = self.lin(o)
            o = self.maybe_bn_act(o, 0.4, 0.8)
        if rng.random() < 0.1:
            # two classifiers whose outputs are concatenated into the network output: both are
            # tied to the output (their widths are fixed by it)
            o1 = self.lin(o, fout=rng.randint(1, 4))
            o2 = self.lin(o, fout=rng.randint(1, 4))
            self.features.add('cat-head')
            t = self.cat([o1, o2], dim=1)
            # ... possibly nested: cat(cat(cat(o1, o2), o3), o4)
            for _ in range(rng.choice([0, 0, 1, 2])):
                t = self.cat([t, self.lin(o, fout=rng.randint(1, 3))], dim=1)
                self.features.add('nested-cat-head')
            return t
        o = self.lin(o, fout=rng.randint(1, 6))
        return o


def gen_program(rng, family=None, depth=None, opts=None):
    """Draw one program.  Returns the JSON description (with 'excluded' and 'features')."""
    opts = opts or {}
    family = family or rng.choice(['1d', '2d'])
    two_inputs = rng.random() < opts.get('p_two_inputs', 0.15)
    if family == '1d':
        c0, L = rng.randint(1, 4), rng.randint(6, 18)
        inputs = [[c0, L]]
    else:
        c0, H, W = rng.randint(1, 3), rng.randint(5, 10), rng.randint(5, 10)
        inputs = [[c0, H, W]]
    opts = dict(opts)
    opts.setdefault('nonsquare', True)
    b = Builder(rng, family, opts)
    b.shapes['x0'] = tuple(inputs[0])
    b.origin['x0'] = 'input'
    if two_inputs:
        c1 = rng.randint(1, 4)
        inputs.append([c1] + inputs[0][1:])
        b.shapes['x1'] = tuple(inputs[1])
        b.origin['x1'] = 'input'
        b.features.add('two-inputs')
    t = 'x0'
    depth = depth or rng.randint(1, 5)
    first = True
    if rng.random() < opts.get('p_fixed_stem', 0.0):
        # an excluded (fixed) first layer: its input width is fixed by the network input, so
        # excluding it is safe whatever the masks of the searchable layers are
        o = b.conv('x0', excluded=True, s=1)
        if o is not None:
            t = b.maybe_bn_act(o, 0.0, 0.6)
            b.features.add('fixed-stem')
    for _ in range(depth):
        r = rng.random()
        extra = ('x1',) if two_inputs else ()
        hazards = opts.get('hazards', ())
        if r < 0.05 and hazards and b.shapes[t][0] <= 6:
            # a chain of nested concats, then a consumer that needs a fixed width (where allowed)
            t = b.dense_block(t)
            kind = rng.choice(['excluded', 'dw', 'add', 'conv'])
            if kind == 'excluded' and 'excluded-consumer' in hazards:
                o = b.conv(t, excluded=True)
                if o is not None:
                    b.traits.add('excluded-consumer')
                    t = o
            elif kind == 'dw' and 'dw-after-cat' in hazards:
                t = b.dw_block(t)
                b.traits.add('dw-after-cat')
            elif kind == 'add' and 'add-of-cat' in hazards:
                t = b.residual_block(t)
            else:
                t = b.conv_block(t)
        elif r < 0.40:
            s = rng.choice([1, 1, 1, 2])
            t = b.conv_block(t, s=s)
        elif r < 0.55:
            t = b.residual_block(t)
        elif r < 0.72:
            t = b.cat_block(t, extra if first or rng.random() < 0.5 else ())
        elif r < 0.80:
            if b.shapes[t][0] >= 1:
                # a depthwise conv fed by a channel concat has no features-defining node in its
                # sharing component (known finding pit-dw-after-concat-no-masker): low weight only
                hz = {'cat': 'dw-after-cat', 'fixed': 'dw-after-fixed'}.get(b.origin[t])
                if hz is None or hz in opts.get('hazards', ()):
                    t = b.dw_block(t)
                    if hz:
                        b.traits.add(hz)
                else:
                    t = b.conv_block(t)
        elif r < 0.86:
            t = b.tcat_block(t)
        elif r < 0.93:
            t = b.pool(t)
        elif 'excluded-consumer' in opts.get('hazards', ()):
            # excluded (fixed) layer in the middle of the chain: its producer may be pruned
            o = b.conv(t, excluded=True)
            if o is not None:
                if b.origin[t] != 'input':
                    b.traits.add('excluded-consumer')
                t = o
        else:
            t = b.conv_block(t)
        first = False
    if two_inputs and not any('x1' in (op.get('srcs') or [op.get('src')]) for op in b.ops):
        # make sure the second input is consumed: bring it in through its own conv and an add/cat
        o1 = b.same_shape_conv('x1') if b.shapes['x1'][1:] == b.shapes[t][1:] else None
        if o1 is not None and b.shapes[o1][1:] == b.shapes[t][1:]:
            t = b.cat([t, o1], 1)
        else:
            # fall back: single-input program
            inputs = inputs[:1]
            b.features.discard('two-inputs')
    t = b.head(t)
    prog = {'family': family, 'inputs': inputs, 'ops': b.ops, 'out': t,
            'excluded': b.excluded, 'features': sorted(b.features), 'traits': sorted(b.traits)}
    return prog


def gen_valid_program(rng, **kw):
    """gen_program + eager shape check (never returns a program PyTorch itself rejects)."""
    for _ in range(50):
        try:
            prog = gen_program(rng, **kw)
            if len(prog['inputs']) == 1 and any(
                    'x1' in (op.get('srcs') or [op.get('src')]) for op in prog['ops']):
                continue
            m = build(prog, 0)
            xs = example_inputs(prog, 2, 0)
            with torch.no_grad():
                y = m(*xs)
            if y.dim() < 2 or y.numel() == 0:
                continue
            # every tensor must reach the output (dead layers are never converted by PLiNIO)
            used = {prog['out']}
            for op in reversed(prog['ops']):
                if op['out'] in used:
                    used.update(op.get('srcs') or [op.get('src')])
            if any(op['out'] not in used for op in prog['ops']):
                continue
            return prog
        except (AssertionError, RuntimeError, ValueError, TypeError, StopIteration):
            continue
    raise RuntimeError('could not generate a valid program')


# ------------------------------------------------------------------------------------------------
# fixed single-conv programs for the exhaustive time-mask sweep
# ------------------------------------------------------------------------------------------------
def single_conv_program(K, d, position='middle', cin=2, cout=3, L=None, bias=True, bn=False,
                        stride=1):
    """A causal Conv1d with kernel K / dilation d at a given position of a small TCN."""
    L = L or max(2 * (K - 1) * d + 3, 8)
    ops = []
    n = [0]

    def nm(p):
        n[0] += 1
        return f'{p}{n[0]}'
    t = 'x0'
    c = cin
    if position in ('middle', 'before_flatten', 'residual'):
        ops.append({'op': 'conv', 'name': 'pre', 'src': t, 'out': 'a', 'cin': c, 'cout': 4, 'k': 3,
                    'd': 1, 's': 1, 'bias': True, 'pad': 'causal', 'dw': False})
        ops.append({'op': 'act', 'kind': 'relu_f', 'src': 'a', 'out': 'a2'})
        t, c = 'a2', 4
    co = c if position == 'residual' else cout
    ops.append({'op': 'conv', 'name': 'tc', 'src': t, 'out': 'b', 'cin': c, 'cout': co, 'k': K,
                'd': d, 's': stride, 'bias': bias, 'pad': 'causal', 'dw': False})
    u = 'b'
    if bn:
        ops.append({'op': 'bn', 'name': 'tcbn', 'src': u, 'out': 'b1', 'c': co, 'bdim': 1,
                    'affine': True, 'eps': [1e-5, 1e-3, 2e-2][(K + d + c) % 3]})
        u = 'b1'
    if position == 'residual':
        ops.append({'op': 'add', 'srcs': [u, t], 'kind': 'op', 'out': 'r'})
        u = 'r'
    ops.append({'op': 'act', 'kind': 'relu_mod', 'name': 'act9', 'src': u, 'out': 'c'})
    u = 'c'
    lout = (L - 1) // stride + 1
    if position == 'before_flatten':
        ops.append({'op': 'flat', 'kind': 'meth', 'src': u, 'out': 'f'})
        ops.append({'op': 'lin', 'name': 'fc', 'src': 'f', 'out': 'o', 'fin': co * lout, 'fout': 3,
                    'bias': True})
    else:
        ops.append({'op': 'conv', 'name': 'post', 'src': u, 'out': 'p', 'cin': co, 'cout': 3,
                    'k': 2, 'd': 1, 's': 1, 'bias': True, 'pad': 'causal', 'dw': False})
        ops.append({'op': 'pool', 'kind': 'aavg', 'k': 0, 'name': 'gap', 'src': 'p', 'out': 'g'})
        ops.append({'op': 'flat', 'kind': 'fn', 'src': 'g', 'out': 'f'})
        ops.append({'op': 'lin', 'name': 'fc', 'src': 'f', 'out': 'o', 'fin': 3, 'fout': 2,
                    'bias': True})
    return {'family': '1d', 'inputs': [[cin, L]], 'ops': ops, 'out': 'o', 'excluded': [],
            'features': ['single-conv', position], 'traits': []}


def reuse_program(rng, family='1d', same_size=True, with_bn=False, pre_bn_consumer=False,
                  bn_variant=None):
    """One searchable conv applied to two network inputs (equal channel count, equal or different
    spatial size), joined on the time/height axis, followed by a conv, pooling and a classifier."""
    c = rng.randint(1, 3)
    co = rng.randint(2, 6)
    if family == '1d':
        L0 = rng.randint(6, 12)
        L1 = L0 if same_size else L0 + rng.randint(1, 5)
        inputs = [[c, L0], [c, L1]]
        k = rng.choice([1, 2, 3, 4, 5])
        conv = {'op': 'conv', 'name': 'shared', 'cin': c, 'cout': co, 'k': k, 'd': rng.choice([1, 2]),
                's': 1, 'bias': rng.random() < 0.7, 'pad': 'causal', 'dw': False}
        k2 = {'k': 3, 'pad': 'causal'}
    else:
        H0, W = rng.randint(5, 8), rng.randint(5, 8)
        H1 = H0 if same_size else H0 + rng.randint(1, 4)
        inputs = [[c, H0, W], [c, H1, W]]
        conv = {'op': 'conv', 'name': 'shared', 'cin': c, 'cout': co, 'k': 3, 'd': 1, 's': 1,
                'bias': rng.random() < 0.7, 'pad': 'same', 'dw': False}
        k2 = {'k': 3, 'pad': 'same'}
    ops = [dict(conv, src='x0', out='a0'),
           dict(conv, src='x1', out='a1', reuse=True)]
    if with_bn:
        # the conv + BatchNorm *pair* is invoked twice
        bn = {'op': 'bn', 'name': 'sharedbn', 'c': co, 'bdim': 1 if family == '1d' else 2,
              'affine': True, 'eps': [1e-5, 1e-3, 2e-2][co % 3]}
        if bn_variant == 'one-site':
            # the BatchNorm follows the FIRST invocation only: fusing it into the layer would also
            # normalise the second invocation (PLiNIO has to refuse such a network)
            ops += [dict(bn, src='a0', out='n0'), {'op': 'act', 'kind': 'ident', 'name': 'idn',
                                                   'src': 'a1', 'out': 'n1'}]
        elif bn_variant == 'two-bns':
            # each invocation is followed by a BatchNorm of its own
            ops += [dict(bn, src='a0', out='n0'), dict(bn, name='sharedbn2', src='a1', out='n1')]
        else:
            ops += [dict(bn, src='a0', out='n0'), dict(bn, src='a1', out='n1', reuse=True)]
        if pre_bn_consumer:
            # the raw (pre-BatchNorm) output of the SECOND invocation has another consumer: the
            # pair cannot be fused there (PLiNIO refuses such a network)
            ops += [{'op': 'add', 'srcs': ['n1', 'a1'], 'kind': 'op', 'out': 'n1r'}]
    ops += [{'op': 'act', 'kind': 'relu_f', 'src': 'n0' if with_bn else 'a0', 'out': 'b0'},
           {'op': 'act', 'kind': 'relu_f', 'src': ('n1r' if pre_bn_consumer else 'n1') if with_bn
            else 'a1', 'out': 'b1'},
           {'op': 'cat', 'srcs': ['b0', 'b1'], 'dim': 2, 'out': 'c'},
           dict({'op': 'conv', 'name': 'post', 'src': 'c', 'out': 'd', 'cin': co,
                 'cout': rng.randint(2, 5), 'd': 1, 's': 1, 'bias': True, 'dw': False}, **k2),
           {'op': 'pool', 'kind': 'aavg', 'k': 0, 'name': 'gap', 'src': 'd', 'out': 'e'},
           {'op': 'flat', 'kind': 'meth', 'src': 'e', 'out': 'f'}]
    post = next(o for o in ops if o.get('name') == 'post')
    ops.append({'op': 'lin', 'name': 'fc', 'src': 'f', 'out': 'o', 'fin': post['cout'],
                'fout': 3, 'bias': True})
    return {'family': family, 'inputs': inputs, 'ops': ops, 'out': 'o', 'excluded': [],
            'features': ['reuse', 'reuse-same' if same_size else 'reuse-diffsize', 'tcat'] +
            (['reuse-conv-bn-pair', 'bn'] if with_bn else []) +
            (['reuse-bn-' + bn_variant] if with_bn and bn_variant else []) +
            (['reuse-pair-pre-bn-consumer'] if with_bn and pre_bn_consumer else []), 'traits': []}


def reuse_split_program(rng, family='1d', delay=0, variant='out'):
    """One searchable conv invoked twice, the two invocations lying in *different* width-sharing
    groups.  variant 'out': the first result is summed into the network output (its width is
    frozen), the second only feeds a hidden convolution; variant 'res': the first result is summed
    with another searchable convolution (one shared mask), the second feeds a hidden convolution.
    `delay` element-wise ops postpone the first call site in a reverse traversal from the output.
    One module has one weight tensor and one mask: all the tied layers must end up with the same
    (for 'out': full) width whichever call site a graph pass happens to visit first."""
    c = rng.randint(1, 3)
    co = rng.randint(3, 6)
    if family == '1d':
        inputs = [[c, rng.randint(6, 12)]]
        geo = {'k': rng.choice([1, 2, 3, 5]), 'd': 1, 's': 1, 'pad': 'causal'}
    else:
        inputs = [[c, rng.randint(5, 8), rng.randint(5, 8)]]
        geo = {'k': 3, 'd': 1, 's': 1, 'pad': 'same'}

    def conv(name, src, out, cin, cout, **kw):
        return dict({'op': 'conv', 'name': name, 'src': src, 'out': out, 'cin': cin, 'cout': cout,
                     'bias': rng.random() < 0.7, 'dw': False}, **dict(geo, **kw))
    ops = [conv('shared', 'x0', 'a', c, co),
           {'op': 'act', 'kind': 'relu_f', 'src': 'a', 'out': 'a1'},
           conv('mid', 'a1', 'm', co, c),
           {'op': 'act', 'kind': 'relu_t', 'src': 'm', 'out': 't'},
           dict(conv('shared', 't', 'b', c, co), reuse=True),
           {'op': 'act', 'kind': 'relu_f', 'src': 'b', 'out': 'b1'},
           conv('head', 'b1', 'h', co, co)]
    ops[4]['bias'] = ops[0]['bias']
    cur = 'a'
    for i in range(delay):
        ops.append({'op': 'act', 'kind': 'relu_t' if i % 2 else 'relu_f', 'src': cur, 'out': f'd{i}'})
        cur = f'd{i}'
    feats = ['reuse', 'reuse-split', f'reuse-split-{variant}', f'reuse-split-delay{delay}', 'add',
             'conv']
    if variant == 'out':
        ops.append({'op': 'add', 'srcs': [cur, 'h'], 'kind': 'op', 'out': 'o'})
        out = 'o'
    else:
        ops += [conv('other', 'x0', 'q', c, co),
                {'op': 'add', 'srcs': [cur, 'q'], 'kind': 'op', 'out': 'r'},
                {'op': 'add', 'srcs': ['r', 'h'], 'kind': 'torch', 'out': 's'},
                {'op': 'act', 'kind': 'relu_f', 'src': 's', 'out': 's1'},
                conv('post', 's1', 'p', co, rng.randint(2, 4)),
                {'op': 'pool', 'kind': 'aavg', 'k': 0, 'name': 'gap', 'src': 'p', 'out': 'e'},
                {'op': 'flat', 'kind': 'meth', 'src': 'e', 'out': 'f'}]
        post = next(o for o in ops if o.get('name') == 'post')
        ops.append({'op': 'lin', 'name': 'fc', 'src': 'f', 'out': 'o', 'fin': post['cout'],
                    'fout': 3, 'bias': True})
        out = 'o'
        feats += ['lin', 'pool', 'flat']
    return {'family': family, 'inputs': inputs, 'ops': ops, 'out': out, 'excluded': [],
            'features': feats, 'traits': []}


def pad_sharing_program(rng, mode='per-site'):
    """Causal Conv1d layers and their explicit `nn.ConstantPad1d` modules in the two arrangements
    that differ from "one pad module per layer": mode 'per-site' - one convolution invoked twice,
    each call site with its own pad module; mode 'shared-pad' - one pad module (a stateless layer)
    used in front of two different convolutions of equal kernel size."""
    c = rng.randint(2, 4)
    L = rng.randint(8, 14)
    k = rng.choice([2, 3, 4, 5])
    d = rng.choice([1, 1, 2])
    base = {'op': 'conv', 'k': k, 'd': d, 's': 1, 'pad': 'causal', 'dw': False}
    if mode == 'per-site':
        sh = dict(base, name='shared', cin=c, cout=c, bias=rng.random() < 0.7)
        ops = [dict(sh, src='x0', out='a', pad_mod='pad_a'),
               {'op': 'act', 'kind': 'relu_f', 'src': 'a', 'out': 'a1'},
               dict(sh, src='a1', out='b', pad_mod='pad_b', reuse=True),
               {'op': 'act', 'kind': 'relu_t', 'src': 'b', 'out': 'b1'},
               {'op': 'add', 'srcs': ['a1', 'b1'], 'kind': 'op', 'out': 'r'}]
        last, cl = 'r', c
    else:
        c2, c3 = rng.randint(2, 5), rng.randint(2, 5)
        ops = [dict(base, name='c1', cin=c, cout=c2, bias=True, src='x0', out='a', pad_mod='pad'),
               {'op': 'act', 'kind': 'relu_f', 'src': 'a', 'out': 'a1'},
               dict(base, name='c2', cin=c2, cout=c3, bias=rng.random() < 0.7, src='a1', out='b',
                    pad_mod='pad'),
               {'op': 'act', 'kind': 'relu_t', 'src': 'b', 'out': 'b1'}]
        last, cl = 'b1', c3
    ops += [dict(base, name='post', cin=cl, cout=rng.randint(2, 4), bias=True, src=last, out='p',
                 k=2, d=1),
            {'op': 'pool', 'kind': 'aavg', 'k': 0, 'name': 'gap', 'src': 'p', 'out': 'e'},
            {'op': 'flat', 'kind': 'meth', 'src': 'e', 'out': 'f'}]
    post = next(o for o in ops if o.get('name') == 'post')
    ops.append({'op': 'lin', 'name': 'fc', 'src': 'f', 'out': 'o', 'fin': post['cout'], 'fout': 3,
                'bias': True})
    feats = ['conv', 'lin', 'pool', 'flat', 'pad-sharing', 'pad-' + mode] + \
        (['reuse', 'add'] if mode == 'per-site' else [])
    return {'family': '1d', 'inputs': [[c, L]], 'ops': ops, 'out': 'o', 'excluded': [],
            'features': feats, 'traits': []}


SPECIALS = ['split-out', 'split-res', 'pad-per-site', 'pad-shared']
SPECIALS2 = ['add-of-two-cats', 'cat-neg-dim', 'cat-axis-kw']


def special_program(rng, family, name, delay=0):
    """the hand-shaped productions above by name (the pad ones exist for 1-D networks only)"""
    if name == 'split-out':
        return reuse_split_program(rng, family, delay, 'out')
    if name == 'split-res':
        return reuse_split_program(rng, family, delay, 'res')
    if name == 'pad-per-site':
        return pad_sharing_program(rng, 'per-site')
    if name == 'pad-shared':
        return pad_sharing_program(rng, 'shared-pad')
    if name in SPECIALS2:
        return cat_variants_program(rng, family, name)
    raise ValueError(name)


def special_cases(n, seed, base):
    """n case dictionaries `base` + {'special', 'delay', 'family', seeds}: every production, both
    families, delays 0..5 (the delay decides which call site a reverse BFS reaches first)"""
    out = []
    allsp = SPECIALS + SPECIALS2
    for i in range(n):
        name = allsp[i % len(allsp)]
        fam = '1d' if name.startswith('pad') or (i // len(allsp)) % 2 == 0 else '2d'
        out.append(dict(base, special=name, delay=(i // 8) % 6, family=fam,
                        prog_seed=seed * 6007 + 500 + i, seed=seed * 6011 + i))
    return out


def cat_variants_program(rng, family, name):
    """Channel concatenations in three further arrangements: the residual sum of TWO concatenations
    (`cat(a, b) + cat(c, d)`: no single mask can describe either side, so all four layers must keep
    their width), and a plain `cat(a, b)` whose channel axis is spelled as a negative index
    (`dim=-2` for 3-D, `dim=-3` for 4-D tensors) or with the `axis=` keyword."""
    c = rng.randint(1, 3)
    if family == '1d':
        inputs = [[c, rng.randint(6, 10)]]
        geo = {'k': rng.choice([1, 3]), 'd': 1, 's': 1, 'pad': 'same'}
        neg = -2
    else:
        inputs = [[c, rng.randint(5, 7), rng.randint(5, 7)]]
        geo = {'k': 3, 'd': 1, 's': 1, 'pad': 'same'}
        neg = -3

    def conv(nm, src, out, cin, cout):
        return dict({'op': 'conv', 'name': nm, 'src': src, 'out': out, 'cin': cin, 'cout': cout,
                     'bias': True, 'dw': False}, **geo)
    wa, wb = rng.randint(2, 5), rng.randint(2, 5)
    ops = [conv('a', 'x0', 'ta', c, wa), conv('b', 'x0', 'tb', c, wb)]
    cat = {'op': 'cat', 'srcs': ['ta', 'tb'], 'dim': 1, 'axis': 1, 'out': 'k0'}
    feats = ['cat', 'conv', 'lin', 'pool', 'flat', 'cat:search-search', name]
    if name == 'cat-neg-dim':
        cat['dim'] = neg
    elif name == 'cat-axis-kw':
        cat['kw'] = 'axis'
    ops.append(cat)
    cur = 'k0'
    if name == 'add-of-two-cats':
        wc = rng.randint(1, wa + wb - 1)
        ops += [conv('c', 'x0', 'tc', c, wc), conv('d', 'x0', 'td', c, wa + wb - wc),
                {'op': 'cat', 'srcs': ['tc', 'td'], 'dim': 1, 'axis': 1, 'out': 'k1'},
                {'op': 'add', 'srcs': ['k0', 'k1'], 'kind': 'op', 'out': 'r'}]
        cur = 'r'
        feats.append('add')
    ops += [{'op': 'act', 'kind': 'relu_f', 'src': cur, 'out': 'r1'},
            conv('e', 'r1', 'te', wa + wb, rng.randint(2, 4)),
            {'op': 'pool', 'kind': 'aavg', 'k': 0, 'name': 'gap', 'src': 'te', 'out': 'g'},
            {'op': 'flat', 'kind': 'meth', 'src': 'g', 'out': 'f'}]
    e = next(o for o in ops if o.get('name') == 'e')
    ops.append({'op': 'lin', 'name': 'fc', 'src': 'f', 'out': 'o', 'fin': e['cout'], 'fout': 3,
                'bias': True})
    return {'family': family, 'inputs': inputs, 'ops': ops, 'out': 'o', 'excluded': [],
            'features': feats, 'traits': []}


def tensor_shapes(prog):
    """shape (without batch) of every tensor of the program, from an eager run"""
    m = build(prog, 0)
    rec = {}
    m._record = rec
    with torch.no_grad():
        m(*example_inputs(prog, 1, 0))
    m._record = None
    return {k: tuple(v.shape[1:]) for k, v in rec.items()}


def cat_origin_program(rng, family, kinds, consumer='conv'):
    """cat(dim=1) of 2..3 tensors of the given origins ('search' / 'fixed' / 'input'), consumed by a
    searchable conv (or, through a spatial flatten, by a linear layer)."""
    n_in = max(1, sum(1 for k in kinds if k == 'input'))
    c = [rng.randint(1, 4) for _ in range(n_in)]
    if family == '1d':
        sp = [rng.randint(5, 9)]
    else:
        sp = [rng.randint(4, 6), rng.randint(4, 6)]
    inputs = [[ci] + sp for ci in c]
    ops, excluded, srcs = [], [], []
    next_in = 0
    for i, kind in enumerate(kinds):
        if kind == 'input':
            srcs.append(f'x{next_in}')
            next_in += 1
            continue
        name = f'{"fx" if kind == "fixed" else "cv"}{i}'
        op = {'op': 'conv', 'name': name, 'src': 'x0', 'out': f'b{i}', 'cin': c[0],
              'cout': rng.randint(2, 6), 'k': rng.choice([1, 3]), 'd': 1, 's': 1,
              'bias': rng.random() < 0.6, 'pad': 'same', 'dw': False}
        if kind == 'fixed':
            op['excluded'] = True
            excluded.append(name)
        ops.append(op)
        if rng.random() < 0.5:
            ops.append({'op': 'act', 'kind': 'relu_f', 'src': f'b{i}', 'out': f'r{i}'})
            srcs.append(f'r{i}')
        else:
            srcs.append(f'b{i}')
    widths = []
    for s_ in srcs:
        if s_.startswith('x'):
            widths.append(c[int(s_[1:])])
        else:
            i = int(s_[1:])
            widths.append(next(o['cout'] for o in ops if o.get('out') == f'b{i}'))
    tot = sum(widths)
    ops.append({'op': 'cat', 'srcs': srcs, 'dim': 1, 'out': 'cc'})
    if consumer == 'conv':
        ops.append({'op': 'conv', 'name': 'cons', 'src': 'cc', 'out': 'd', 'cin': tot,
                    'cout': rng.randint(2, 5), 'k': 3 if family == '2d' else 2, 'd': 1, 's': 1,
                    'bias': True, 'pad': 'same', 'dw': False})
        ops.append({'op': 'act', 'kind': 'relu_mod', 'name': 'act', 'src': 'd', 'out': 'e'})
        ops.append({'op': 'pool', 'kind': 'aavg', 'k': 0, 'name': 'gap', 'src': 'e', 'out': 'g'})
        ops.append({'op': 'flat', 'kind': rng.choice(['mod', 'meth', 'fn']), 'name': 'fl',
                    'src': 'g', 'out': 'f'})
        fin = ops[-4]['cout']
    else:
        ops.append({'op': 'flat', 'kind': rng.choice(['mod', 'meth', 'fn']), 'name': 'fl',
                    'src': 'cc', 'out': 'f'})
        fin = tot
        for x in sp:
            fin *= x
    ops.append({'op': 'lin', 'name': 'fc0', 'src': 'f', 'out': 'h', 'fin': fin,
                'fout': rng.randint(2, 6), 'bias': True})
    ops.append({'op': 'act', 'kind': 'relu_t', 'src': 'h', 'out': 'h2'})
    ops.append({'op': 'lin', 'name': 'fc1', 'src': 'h2', 'out': 'o', 'fin': ops[-2]['fout'],
                'fout': 2, 'bias': True})
    return {'family': family, 'inputs': inputs, 'ops': ops, 'out': 'o', 'excluded': excluded,
            'features': ['cat', 'cat:' + '-'.join(sorted(kinds)), 'cat-consumer:' + consumer],
            'traits': []}


def manual_program(rng, family, plain_consumer=False):
    """autoconvert_layers=False: the user placed the searchable layers (a fixed stem, two
    user-placed searchable layers, a user-placed classifier with a frozen masker)."""
    c0 = rng.randint(1, 3)
    if family == '1d':
        inputs = [[c0, rng.randint(6, 10)]]
        kw = {'k': rng.choice([2, 3, 5]), 'pad': 'causal'}
    else:
        inputs = [[c0, rng.randint(5, 7), rng.randint(5, 7)]]
        kw = {'k': 3, 'pad': 'same'}
    c1, c2, c3 = rng.randint(2, 5), rng.randint(2, 6), rng.randint(2, 6)
    base = {'op': 'conv', 'd': 1, 's': 1, 'bias': True, 'dw': False}
    ops = [dict(base, name='stem', src='x0', out='a', cin=c0, cout=c1, **kw),
           {'op': 'act', 'kind': 'relu_f', 'src': 'a', 'out': 'a2'},
           dict(base, name='p1', src='a2', out='b', cin=c1, cout=c2, pit=True, **kw),
           {'op': 'bn', 'name': 'bn1', 'src': 'b', 'out': 'b1', 'c': c2,
            'bdim': 1 if family == '1d' else 2, 'affine': True, 'eps': [1e-5, 1e-3, 2e-2][c2 % 3]},
           {'op': 'act', 'kind': 'relu_mod', 'name': 'act1', 'src': 'b1', 'out': 'b2'},
           # (plain_consumer: the README's "optimize only specific layers" usage - a standard layer
           # right behind a user-placed searchable one)
           dict(base, name='p2', src='b2', out='c', cin=c2, cout=c3, **dict(
               kw, **({} if plain_consumer else {'pit': True}))),
           {'op': 'act', 'kind': 'relu_t', 'src': 'c', 'out': 'c2'},
           {'op': 'flat', 'kind': 'meth', 'src': 'c2', 'out': 'f'}]
    n = c3
    for x in inputs[0][1:]:
        n *= x
    ops.append({'op': 'lin', 'name': 'head', 'src': 'f', 'out': 'o', 'fin': n, 'fout': 3,
                'bias': True, 'pit': 'frozen'})
    return {'family': family, 'inputs': inputs, 'ops': ops, 'out': 'o', 'excluded': [],
            'manual': True, 'features': ['manual', 'flat', 'flat-spatial', 'bn'] +
            (['manual-plain-consumer'] if plain_consumer else []), 'traits': []}
