"""Worker process: runs one shard of a property's cases with the monitors attached."""
import argparse
import importlib
import json
import os
import random
import sys
import time


def seed_all(*parts):
    import hashlib
    import torch
    h = int(hashlib.sha256(repr(parts).encode()).hexdigest()[:12], 16)
    random.seed(h)
    torch.manual_seed(h % (2 ** 31))
    try:
        import numpy as np
        np.random.seed(h % (2 ** 31))
    except Exception:
        pass
    return h


def run_cases(prop_mod, cases, indices, ctx, deadline=None):
    for idx in indices:
        if deadline is not None and time.time() > deadline:
            ctx.count('cases_not_run_deadline', 1)
            continue
        case = cases[idx]
        ctx.case = case
        ctx.case_index = idx
        ctx.n_cases += 1
        seed_all(ctx.seed, ctx.prop, idx)
        try:
            prop_mod.run_case(case, ctx)
        except Exception as e:
            crash = library_crash(e)
            if crash is not None:
                # not a harness problem: the library itself fell over (a programming error raised
                # from inside plinio/) while serving a request the check makes on every tree
                ctx.violation('library-crash', crash)
            else:       # a harness problem, never a verdict
                ctx.error('run_case', e)
    ctx.case = None


PROGRAMMING_ERRORS = (TypeError, AttributeError, IndexError, UnboundLocalError, NameError,
                      ZeroDivisionError)


def library_crash(exc):
    """{'sig', 'exc', 'where'} if `exc` is a programming error whose innermost frame lies in the
    library under test (plinio/), else None.  Deliberate refusals (ValueError, KeyError,
    NotImplementedError, RuntimeError) and anything raised from harness or torch code stay harness
    errors: they make the run inconclusive, never violated."""
    import traceback
    if not isinstance(exc, PROGRAMMING_ERRORS):
        return None
    frames = traceback.extract_tb(exc.__traceback__)
    if not frames:
        return None
    inner = frames[-1]
    marker = os.sep + 'plinio' + os.sep
    if marker not in inner.filename or os.sep + 'vf' + os.sep in inner.filename:
        return None
    if (inner.line or '').strip().startswith('raise'):
        return None         # an explicit `raise` is a deliberate refusal, whatever its type
    return {'sig': type(exc).__name__ + ':' + os.path.basename(inner.filename) + ':' + inner.name,
            'exc': repr(exc)[:300], 'where': f'{inner.filename}:{inner.lineno}'}


def main(argv=None):
    ap = argparse.ArgumentParser()
    ap.add_argument('--prop', required=True)
    ap.add_argument('--tier', default='quick')
    ap.add_argument('--seed', type=int, default=0)
    ap.add_argument('--shard', type=int, default=0)
    ap.add_argument('--nshards', type=int, default=1)
    ap.add_argument('--out', required=True)
    ap.add_argument('--budget', type=float, default=0.0)
    args = ap.parse_args(argv)

    from vf import bootstrap
    bootstrap.setup()
    from vf.ctx import Ctx
    mod = importlib.import_module('vf.props.' + args.prop.lower())
    ctx = Ctx(args.prop, args.tier, args.seed)
    t0 = time.time()
    try:
        if hasattr(mod, 'worker_setup'):
            mod.worker_setup(ctx)
        cases = mod.cases(args.tier, args.seed)
        indices = [i for i in range(len(cases)) if i % args.nshards == args.shard]
        deadline = (t0 + args.budget) if args.budget > 0 else None
        run_cases(mod, cases, indices, ctx, deadline)
        if hasattr(mod, 'worker_finish'):
            mod.worker_finish(ctx)
    except Exception as e:
        ctx.error('worker', e)
    out = ctx.dump()
    out['wall_s'] = time.time() - t0
    out['n_total_cases'] = len(cases) if 'cases' in dir() else 0
    tmp = args.out + '.tmp'
    with open(tmp, 'w') as f:
        json.dump(out, f)
    os.replace(tmp, args.out)
    return 0


if __name__ == '__main__':
    sys.exit(main())
