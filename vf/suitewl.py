"""The repository's own test-suite as a *workload* for the in-situ monitors.

The 132 baseline tests build models the grammars do not (the maintainers' TCResNet / DSCnn / ToyAdd
families) and - unlike every generated workload - move the architectural parameters with a real
optimiser for tens of epochs (test_pit_search, test_mps_search).  Their own assertions are not the
oracle here and their outcome is never a verdict: a `repo-suite` case runs a set of test node ids
in-process (pytest.main inside the worker, after the property's `worker_setup` installed its class
level monitors), and whatever the monitors see while the tests run is judged exactly as in the
generated workloads.  What is recorded: number of tests executed / passed, monitor evaluations that
happened inside the suite (`<prop>.suite_evals`), coverage class `repo-suite:<file>`.

A case that executed no test, or in which the property's in-situ monitor was never evaluated, counts
as `suite-idle` (visible in the evidence), never as held.
"""
import ast
import os

from vf import bootstrap

# files whose complete run stays below ~8 s on one thread
FAST = [
    'unit_test/test_cost/test_diana_latency.py',
    'unit_test/test_cost/test_gap8_latency.py',
    'unit_test/test_cost/test_ne16_latency.py',
    'unit_test/test_cost/test_ops.py',
    'unit_test/test_cost/test_ops_bit.py',
    'unit_test/test_cost/test_params.py',
    'unit_test/test_cost/test_params_bit.py',
    'unit_test/test_methods/test_mps/test_backend_match.py',
    'unit_test/test_methods/test_mps/test_backend_maupiti.py',
    'unit_test/test_methods/test_mps/test_mps_convert.py',
    'unit_test/test_methods/test_pit/test_pit_batchnorm.py',
    'unit_test/test_methods/test_pit/test_pit_conv2d.py',
    'unit_test/test_methods/test_pit/test_pit_convert.py',
    'unit_test/test_methods/test_pit/test_pit_linear.py',
    'unit_test/test_methods/test_pit/test_pit_masking.py',
    'unit_test/test_methods/test_supernet/test_supernet.py',
    'unit_test/test_utils/test_graph.py',
]
# real optimiser runs: ~80 s per file, split by test function in the thorough tier
SLOW = [
    'unit_test/test_methods/test_mps/test_mps_search.py',
    'unit_test/test_methods/test_pit/test_pit_search.py',
]


def _node_ids(relpath):
    """file::Class::test ids from the source (no collection run: every worker must see the same list)"""
    path = os.path.join(bootstrap.REPO, relpath)
    try:
        tree = ast.parse(open(path).read())
    except Exception:
        return []
    ids = []
    for node in tree.body:
        if isinstance(node, ast.ClassDef) and node.name.startswith('Test'):
            for f in node.body:
                if isinstance(f, ast.FunctionDef) and f.name.startswith('test'):
                    ids.append(f'{relpath}::{node.name}::{f.name}')
        elif isinstance(node, ast.FunctionDef) and node.name.startswith('test'):
            ids.append(f'{relpath}::{node.name}')
    return ids


def cases(tier, select=(), slow_in_quick=()):
    """`select`: substrings a file path must contain (any); empty = every file.
    quick: the fast files, one case per file (+ the named tests of `slow_in_quick`);
    thorough: additionally every test function of the optimiser-driven files, one case each."""
    def want(p):
        return not select or any(s in p for s in select)
    cs = [{'kind': 'repo-suite', 'targets': [p], 'file': p} for p in FAST if want(p)
          and os.path.exists(os.path.join(bootstrap.REPO, p))]
    for p in SLOW:
        if not want(p):
            continue
        ids = _node_ids(p)
        if tier == 'thorough':
            cs += [{'kind': 'repo-suite', 'targets': [i], 'file': p} for i in ids]
        else:
            cs += [{'kind': 'repo-suite', 'targets': [i], 'file': p} for i in ids
                   if any(s in i for s in slow_in_quick)]
    return cs


class _Plugin:
    def __init__(self, on_test_end):
        self.passed = self.failed = self.ran = 0
        self.on_test_end = on_test_end

    def pytest_runtest_logreport(self, report):
        if report.when == 'call':
            self.ran += 1
            if report.passed:
                self.passed += 1
            elif report.failed:
                self.failed += 1

    def pytest_runtest_teardown(self, item, nextitem):
        if self.on_test_end is not None:
            self.on_test_end(item.nodeid)


def run(case, ctx, monitor_names, on_test_end=None):
    """Runs the case's tests in-process.  `monitor_names`: the ctx monitor counters whose growth
    while the tests run is the evidence that the suite really drove the in-situ monitors."""
    import contextlib
    import io
    import random
    import pytest
    import torch
    before = {m: ctx.monitors.get(m, 0) for m in monitor_names}
    plug = _Plugin(on_test_end)
    cwd = os.getcwd()
    rng_state = (random.getstate(), torch.get_rng_state())
    os.chdir(bootstrap.REPO)
    try:
        args = [os.path.join(bootstrap.REPO, t) for t in case['targets']]
        args += ['-q', '-p', 'no:cacheprovider', '-p', 'no:warnings', '--rootdir', bootstrap.REPO,
                 '--continue-on-collection-errors', '-o', 'addopts=', '--tb=no', '--no-header']
        buf = io.StringIO()
        with contextlib.redirect_stdout(buf), contextlib.redirect_stderr(buf):
            pytest.main(args, plugins=[plug])
    finally:
        os.chdir(cwd)
        random.setstate(rng_state[0])
        torch.set_rng_state(rng_state[1])
        torch.set_grad_enabled(True)
    if on_test_end is not None:
        on_test_end('<end>')
    grown = sum(ctx.monitors.get(m, 0) - before[m] for m in monitor_names)
    ctx.count('suite_tests_run', plug.ran)
    ctx.count('suite_tests_passed', plug.passed)
    ctx.count('suite_tests_failed', plug.failed)
    ctx.mon(ctx.prop.lower() + '.suite_evals', grown)
    fname = os.path.basename(case['file'])
    if plug.ran == 0 or grown == 0:
        ctx.cls('suite-idle:' + fname)
    else:
        ctx.cls('repo-suite:' + fname)
        ctx.nontriv(('repo-suite', tuple(case['targets'])))
    return plug, grown
