"""Observation snapshots (C17, C18): everything an outside observer can see of a NAS model."""
import hashlib

import torch
import torch.nn as nn


def thash(t):
    t = t.detach().cpu().contiguous()
    return hashlib.sha256(str(t.dtype).encode() + str(tuple(t.shape)).encode() +
                          t.numpy().tobytes()).hexdigest()[:20]


def jsonify(o):
    if isinstance(o, torch.Tensor):
        return thash(o) if o.numel() > 8 else [float(v) for v in o.detach().flatten().tolist()]
    if isinstance(o, dict):
        return {str(k): jsonify(v) for k, v in o.items()}
    if isinstance(o, (list, tuple)):
        return [jsonify(v) for v in o]
    if isinstance(o, (int, float, str, bool)) or o is None:
        return o
    return str(o)


def module_arch(m):
    keys = ('in_channels', 'out_channels', 'kernel_size', 'stride', 'padding', 'dilation', 'groups',
            'in_features', 'out_features', 'num_features', 'eps', 'momentum', 'affine', 'precision')
    out = {'type': type(m).__name__}
    for k in keys:
        if hasattr(m, k):
            try:
                v = getattr(m, k)
                out[k] = jsonify(v) if not callable(v) else None
            except Exception:
                pass
    return out


def export_snapshot(exported):
    return {'code': getattr(exported, 'code', ''),
            'modules': {n: module_arch(m) for n, m in exported.named_modules() if n},
            'state_dict': {k: thash(v) for k, v in exported.state_dict().items()}}


def state_hashes(nas):
    return {k: thash(v) for k, v in nas.state_dict().items()}


def observe_as_is(nas, xs, cost_names, what, seed=1234):
    """What the model shows *before* the observer touches its mode or runs a forward: the cost of the
    stored sample, whether it is differentiable and its gradient w.r.t. the architectural parameters
    ('cost'), and one forward in whatever mode the model is in ('output')."""
    snap = {}
    if 'cost' in what:
        nas_params = [p for p in nas.nas_parameters()]
        for nm in cost_names:
            try:
                c = nas.cost if nm is None else nas.get_cost(nm)
                snap[f'cost_{nm}'] = float(c)
                snap[f'cost_{nm}_requires_grad'] = bool(c.requires_grad)
                if c.requires_grad:
                    gs = torch.autograd.grad(c, nas_params, retain_graph=True, allow_unused=True)
                    snap[f'cost_{nm}_grad'] = [None if g is None else thash(g) for g in gs]
            except Exception as e:
                snap[f'cost_{nm}'] = 'ERR:' + type(e).__name__
    if 'output' in what:
        torch.manual_seed(seed)
        with torch.no_grad():
            y = nas(*xs)
        snap['output'] = thash(y)
    return snap


def observe(nas, xs, cost_names, with_export=True, with_outputs=True, seed=1234, modes=('eval',
                                                                                       'train'),
            as_is=()):
    """Observation snapshot.  Forward passes are part of the observation (``after the usual forward
    pass''); a train-mode forward legitimately moves BatchNorm statistics, so two models are only
    comparable if both are observed with the same call."""
    snap = {}
    was_training = nas.training
    if as_is:
        snap['as_is'] = observe_as_is(nas, xs, cost_names, as_is, seed)
    # flags and parameters first: the forward passes below set the mode explicitly
    snap['training_flags'] = {n: m.training for n, m in nas.named_modules()}
    snap['requires_grad'] = {n: bool(p.requires_grad) for n, p in nas.named_parameters()}
    snap['state_dict_before_observation'] = state_hashes(nas)
    flags0 = {n: m.training for n, m in nas.named_modules()}
    if with_outputs:
        for mode in modes:
            nas.train(mode == 'train')
            torch.manual_seed(seed)
            with torch.no_grad():
                y = nas(*xs)
            snap['output_' + mode] = thash(y)
            snap['output_' + mode + '_finite'] = bool(torch.isfinite(y).all())
            for nm in cost_names:
                try:
                    c = nas.cost if nm is None else nas.get_cost(nm)
                    snap[f'cost_{mode}_{nm}'] = float(c)
                except Exception as e:
                    snap[f'cost_{mode}_{nm}'] = 'ERR:' + type(e).__name__
        nas.train(was_training)
        for n, m in nas.named_modules():
            if n in flags0:
                m.training = flags0[n]
    try:
        torch.manual_seed(seed + 1)      # (a Gumbel SuperNet samples inside summary())
        snap['summary'] = jsonify(nas.summary())
    except Exception as e:
        snap['summary'] = 'ERR:' + type(e).__name__ + str(e)[:80]
    snap['state_dict'] = state_hashes(nas)
    if with_export:
        flags = {n: m.training for n, m in nas.named_modules()}
        try:
            e = nas.export()
            snap['export'] = export_snapshot(e)
            if with_outputs:
                e.eval()
                with torch.no_grad():
                    snap['export_output'] = thash(e(*xs))
        except Exception as ex:
            snap['export'] = 'ERR:' + type(ex).__name__ + ':' + str(ex)[:100]
        # the snapshot itself must not disturb what it observes next
        for n, m in nas.named_modules():
            if n in flags:
                m.training = flags[n]
    return snap


def as_is_loss(model_snap, twin_snap):
    """One-sided comparison of two 'as is' observations (model under test vs its twin): the cost
    values must agree; differentiability and gradients are compared only where the twin's cost is
    differentiable (gaining a graph the twin does not have harms nothing)."""
    out = []
    a, b = model_snap.get('as_is', {}), twin_snap.get('as_is', {})
    for k in sorted(set(a) | set(b)):
        if k.endswith('_requires_grad'):
            if b.get(k) and not a.get(k):
                out.append('as_is.' + k + ' (lost)')
        elif k.endswith('_grad'):
            if k in b and k in a and a[k] != b[k]:
                out.append('as_is.' + k)
        elif a.get(k) != b.get(k):
            va, vb = a.get(k), b.get(k)
            if isinstance(va, float) and isinstance(vb, float) and va != va and vb != vb:
                continue
            out.append('as_is.' + k)
    return out


def diff(a, b, prefix=''):
    """list of keys (dotted paths) at which two snapshots differ"""
    out = []
    if isinstance(a, dict) and isinstance(b, dict):
        for k in sorted(set(a) | set(b)):
            if k not in a or k not in b:
                out.append(prefix + str(k) + (' (only in first)' if k in a else ' (only in second)'))
            else:
                out.extend(diff(a[k], b[k], prefix + str(k) + '.'))
    elif a != b:
        # (a search that diverged yields NaN costs on both sides: NaN is the same observation)
        if isinstance(a, float) and isinstance(b, float) and a != a and b != b:
            return out
        out.append(prefix.rstrip('.'))
    return out


def summarize_diff(d, limit=12):
    groups = {}
    for k in d:
        groups.setdefault(k.split('.')[0], []).append(k)
    return {g: ks[:limit] for g, ks in groups.items()}
