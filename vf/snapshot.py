"""Observation snapshots (C17, C18): everything an outside observer can see of a NAS model."""
import hashlib

import torch
import torch.nn as nn


def thash(t):
    t = t.detach().cpu().contiguous()
    return hashlib.sha256(str(t.dtype).encode() + str(tuple(t.shape)).encode() +
                          t.numpy().tobytes()).hexdigest()[:20]


def jsonify(o):
    if isinstance(o, torch.Tensor):
        return thash(o) if o.numel() > 8 else [float(v) for v in o.detach().flatten().tolist()]
    if isinstance(o, dict):
        return {str(k): jsonify(v) for k, v in o.items()}
    if isinstance(o, (list, tuple)):
        return [jsonify(v) for v in o]
    if isinstance(o, (int, float, str, bool)) or o is None:
        return o
    return str(o)


def module_arch(m):
    keys = ('in_channels', 'out_channels', 'kernel_size', 'stride', 'padding', 'dilation', 'groups',
            'in_features', 'out_features', 'num_features', 'eps', 'momentum', 'affine', 'precision')
    out = {'type': type(m).__name__}
    for k in keys:
        if hasattr(m, k):
            try:
                v = getattr(m, k)
                out[k] = jsonify(v) if not callable(v) else None
            except Exception:
                pass
    return out


def export_snapshot(exported):
    return {'code': getattr(exported, 'code', ''),
            'modules': {n: module_arch(m) for n, m in exported.named_modules() if n},
            'state_dict': {k: thash(v) for k, v in exported.state_dict().items()}}


def state_hashes(nas):
    return {k: thash(v) for k, v in nas.state_dict().items()}


def observe(nas, xs, cost_names, with_export=True, with_outputs=True, seed=1234, modes=('eval',
                                                                                       'train')):
    """Observation snapshot.  Forward passes are part of the observation (``after the usual forward
    pass''); a train-mode forward legitimately moves BatchNorm statistics, so two models are only
    comparable if both are observed with the same call."""
    snap = {}
    was_training = nas.training
    # flags and parameters first: the forward passes below set the mode explicitly
    snap['training_flags'] = {n: m.training for n, m in nas.named_modules()}
    snap['requires_grad'] = {n: bool(p.requires_grad) for n, p in nas.named_parameters()}
    snap['state_dict_before_observation'] = state_hashes(nas)
    flags0 = {n: m.training for n, m in nas.named_modules()}
    if with_outputs:
        for mode in modes:
            nas.train(mode == 'train')
            torch.manual_seed(seed)
            with torch.no_grad():
                y = nas(*xs)
            snap['output_' + mode] = thash(y)
            snap['output_' + mode + '_finite'] = bool(torch.isfinite(y).all())
            for nm in cost_names:
                try:
                    c = nas.cost if nm is None else nas.get_cost(nm)
                    snap[f'cost_{mode}_{nm}'] = float(c)
                except Exception as e:
                    snap[f'cost_{mode}_{nm}'] = 'ERR:' + type(e).__name__
        nas.train(was_training)
        for n, m in nas.named_modules():
            if n in flags0:
                m.training = flags0[n]
    try:
        snap['summary'] = jsonify(nas.summary())
    except Exception as e:
        snap['summary'] = 'ERR:' + type(e).__name__ + str(e)[:80]
    snap['state_dict'] = state_hashes(nas)
    if with_export:
        flags = {n: m.training for n, m in nas.named_modules()}
        try:
            e = nas.export()
            snap['export'] = export_snapshot(e)
            if with_outputs:
                e.eval()
                with torch.no_grad():
                    snap['export_output'] = thash(e(*xs))
        except Exception as ex:
            snap['export'] = 'ERR:' + type(ex).__name__ + ':' + str(ex)[:100]
        # the snapshot itself must not disturb what it observes next
        for n, m in nas.named_modules():
            if n in flags:
                m.training = flags[n]
    return snap


def diff(a, b, prefix=''):
    """list of keys (dotted paths) at which two snapshots differ"""
    out = []
    if isinstance(a, dict) and isinstance(b, dict):
        for k in sorted(set(a) | set(b)):
            if k not in a or k not in b:
                out.append(prefix + str(k) + (' (only in first)' if k in a else ' (only in second)'))
            else:
                out.extend(diff(a[k], b[k], prefix + str(k) + '.'))
    elif a != b:
        out.append(prefix.rstrip('.'))
    return out


def summarize_diff(d, limit=12):
    groups = {}
    for k in d:
        groups.setdefault(k.split('.')[0], []).append(k)
    return {g: ks[:limit] for g, ks in groups.items()}
