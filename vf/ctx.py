"""Per-worker observation context: what the monitors saw, not just that the workload ran."""
import hashlib
import json
import traceback


def jhash(obj) -> str:
    return hashlib.sha256(json.dumps(obj, sort_keys=True, default=str).encode()).hexdigest()[:16]


def jsonable(o, depth=0):
    """Best-effort conversion of witnesses (tensors, tuples, numpy) to JSON-serialisable data."""
    try:
        import torch
    except Exception:  # pragma: no cover
        torch = None
    if depth > 8:
        return str(o)[:200]
    if o is None or isinstance(o, (bool, int, str)):
        return o
    if isinstance(o, float):
        if o != o or o in (float('inf'), float('-inf')):
            return repr(o)
        return o
    if torch is not None and isinstance(o, torch.Tensor):
        if o.numel() <= 64:
            return jsonable(o.detach().cpu().tolist(), depth + 1)
        return {'tensor_shape': list(o.shape), 'head': jsonable(o.detach().flatten()[:16].tolist())}
    if isinstance(o, dict):
        return {str(k): jsonable(v, depth + 1) for k, v in o.items()}
    if isinstance(o, (list, tuple, set, frozenset)):
        return [jsonable(v, depth + 1) for v in o]
    return str(o)[:300]


class Ctx:
    def __init__(self, prop, tier, seed):
        self.prop = prop
        self.tier = tier
        self.seed = seed
        self.monitors = {}
        self.classes = {}
        self.nontrivial = set()
        self.states = set()
        self.violations = []
        self.samples = []
        self.errors = []
        self.skipped = {}
        self.n_cases = 0
        self.case = None
        self.case_index = None
        self.max_samples = 4
        self.extra = {}

    # ---- observations -----------------------------------------------------------------------
    def mon(self, name, n=1):
        self.monitors[name] = self.monitors.get(name, 0) + n

    def cls(self, label, n=1):
        self.classes[label] = self.classes.get(label, 0) + n

    def nontriv(self, key):
        self.nontrivial.add(jhash(key))

    def state(self, key):
        self.states.add(jhash(key))

    def sample(self, obj):
        if len(self.samples) < self.max_samples:
            self.samples.append(jsonable(obj))

    def skip(self, reason):
        reason = str(reason)[:120]
        self.skipped[reason] = self.skipped.get(reason, 0) + 1

    def count(self, key, n=1):
        self.extra[key] = self.extra.get(key, 0) + n

    # ---- verdict-relevant events -----------------------------------------------------------
    def violation(self, monitor, detail, prop=None):
        """A monitor refuted the property on the current case.

        `monitor` names the oracle that fired, `detail` is the witness (observed vs expected and
        every field the known-finding predicates look at)."""
        v = {'property': prop or self.prop, 'monitor': monitor, 'detail': jsonable(detail),
             'case': jsonable(self.case), 'case_index': self.case_index, 'seed': self.seed,
             'tier': self.tier}
        if len(self.violations) < 400:
            self.violations.append(v)
        self.count('violations_total')

    def error(self, where, exc=None):
        tb = traceback.format_exc() if exc is not None else ''
        if len(self.errors) < 50:
            self.errors.append({'where': where, 'exc': repr(exc)[:500], 'tb': tb[-3000:],
                                'case': jsonable(self.case), 'case_index': self.case_index})
        self.count('harness_errors')

    def dump(self):
        return {'prop': self.prop, 'monitors': self.monitors, 'classes': self.classes,
                'nontrivial': sorted(self.nontrivial), 'states': sorted(self.states),
                'violations': self.violations, 'samples': self.samples, 'errors': self.errors,
                'skipped': self.skipped, 'n_cases': self.n_cases, 'extra': self.extra}
