"""Harness helpers for PIT workloads: conversion, mask assignment, reference models (R-time,
R-alive, R-cost) and the export/BN synchronisation that C01's statement prescribes."""
import copy
import math

import torch
import torch.nn as nn

from vf.gen import pitgen

UNSUPPORTED_MARKERS = (
    'Unsupported node', 'not supported', 'PIT currently supports only',
    'multiple users', 'track_running_stats', 'invoked without the second one',
)


def convert_pit(prog, seed, fold_bn=False, discrete_cost=False, full_cost=False, cost=None,
                train_mode=False, exclude_types=(), autoconvert=True, extra_kwargs=None):
    """Returns (user_model, pit_model, xs).  Raises whatever PIT raises."""
    from plinio.methods import PIT
    from plinio.cost import params
    model = pitgen.build(prog, seed)
    if train_mode:
        model.train()
    xs = pitgen.example_inputs(prog, 1, seed)
    from vf import neutral
    ex = pitgen.example_inputs(prog, neutral.example_batch(seed), seed)
    kw = dict(input_example=pitgen.input_example_arg(prog, ex), fold_bn=fold_bn,
              discrete_cost=discrete_cost, full_cost=full_cost,
              exclude_names=tuple(prog.get('excluded', ())), exclude_types=tuple(exclude_types),
              autoconvert_layers=autoconvert)
    kw.update(extra_kwargs or {})
    pit = PIT(model, cost=cost if cost is not None else params, **kw)
    from vf import neutral
    pit = neutral.maybe_clone(pit, seed)
    neutral.maybe_warm(pit, xs, seed)
    return model, pit, xs


def pit_layers(pit):
    from plinio.methods.pit.nn.module import PITModule
    return [(n, m) for n, m in pit.seed.named_modules() if isinstance(m, PITModule)]


def unique_maskers(pit):
    """Unique masker objects by identity: (features, timestep, dilation) lists of (owner names, m)."""
    from plinio.methods.pit.nn import PITConv1d
    feats, times, dils = {}, {}, {}
    for n, l in pit_layers(pit):
        fm = getattr(l, 'out_features_masker', None)
        if fm is not None:
            feats.setdefault(id(fm), ([], fm))[0].append(n)
        if isinstance(l, PITConv1d):
            times.setdefault(id(l.timestep_masker), ([], l.timestep_masker))[0].append(n)
            dils.setdefault(id(l.dilation_masker), ([], l.dilation_masker))[0].append(n)
    return list(feats.values()), list(times.values()), list(dils.values())


def is_frozen(masker):
    return 'Frozen' in type(masker).__name__


def mask_tensor(m):
    """The raw mask tensor of a masker whatever its storage (Parameter or buffer)."""
    for nm in ('alpha', 'beta', 'gamma'):
        if hasattr(m, nm):
            return getattr(m, nm)
    raise AttributeError('no mask tensor')


ADVERSARIAL = [0.0, 1e-30, -1e-30, 0.49, -0.49, 0.51, -0.51, 1.0, -1.0, 1e30, -1e30, 0.5, -0.5]


def set_mask(m, values):
    with torch.no_grad():
        t = mask_tensor(m)
        t.data.copy_(torch.as_tensor(values, dtype=t.dtype).reshape(t.shape))


def draw_channel_mask(rng, n, mode):
    if mode == 'open':
        return [1.0] * n
    if mode == 'allpruned':
        return [0.0] * n
    if mode == 'binary':
        return [float(rng.random() < 0.55) for _ in range(n)]
    if mode == 'adversarial':
        return [rng.choice(ADVERSARIAL) for _ in range(n)]
    if mode == 'normal':
        return [rng.gauss(0, 1) for _ in range(n)]
    if mode == 'zeros-neg':
        return [rng.choice([0.0, -0.0, -1e-3, -2.0]) for _ in range(n)]
    if mode == 'huge':
        return [rng.choice([1e30, -1e30, 3e38]) for _ in range(n)]
    raise ValueError(mode)


def apply_channel_masks(pit, rng, mode, include_frozen=True):
    """Assigns channel masks to every unique features masker; returns the assignment."""
    feats, _, _ = unique_maskers(pit)
    out = []
    for names, fm in feats:
        if is_frozen(fm) and not include_frozen:
            continue
        n = mask_tensor(fm).numel()
        md = mode if mode != 'mixed' else rng.choice(['open', 'binary', 'binary', 'adversarial',
                                                      'normal', 'allpruned'])
        vals = draw_channel_mask(rng, n, md)
        set_mask(fm, vals)
        out.append({'layers': names, 'mode': md, 'frozen': is_frozen(fm), 'alpha': vals})
    return out


def time_pattern_values(K, r_prune, g_prune, style='binary', rng=None):
    """beta / gamma parameter vectors realising: `r_prune` leading beta elements pruned and
    `g_prune` leading gamma elements pruned.  style='real' uses sub-threshold reals whose
    cumulative sums cross 0.5 exactly where the binary pattern does."""
    glen = max(math.ceil(math.log(K, 2)), 1)
    r_prune = min(r_prune, K)
    g_prune = min(g_prune, glen)
    if style == 'binary':
        beta = [0.0] * r_prune + [1.0] * (K - r_prune)
        gamma = [0.0] * g_prune + [1.0] * (glen - g_prune)
    else:
        # binarisation happens after the cumulative sums: the pruned prefix sums to 0.45 (< 0.5),
        # the first alive element pushes the sum to 0.65, later elements are arbitrary
        def vec(n, npruned):
            v = []
            for i in range(n):
                if i < npruned:
                    x = 0.45 / npruned
                elif i == npruned:
                    x = 0.2 if npruned > 0 else 0.65
                else:
                    x = 0.0 if rng is None else rng.choice([0.0, 0.1, 0.3, 1.0])
                if rng is not None and rng.random() < 0.4:
                    x = -x
                v.append(x)
            return v
        beta = vec(K, r_prune)
        gamma = vec(glen, g_prune)
    return beta, gamma


# ------------------------------------------------------------------------------------------------
# R-time: semantic model of a PIT time mask
# ------------------------------------------------------------------------------------------------
def r_time_decode(alive, K):
    """alive: sorted list of alive tap indices of a K-tap causal kernel.  Returns (ok, step, ks):
    the set must be {K-1 - i*s : i = 0..ks-1} for a power-of-two step s (a comb anchored at the most
    recent timestep)."""
    if not alive or alive[-1] != K - 1:
        return False, None, None
    ks = len(alive)
    if ks == 1:
        return True, None, 1
    s = alive[-1] - alive[-2]
    if s <= 0 or (s & (s - 1)) != 0:
        return False, None, None
    exp = sorted(K - 1 - i * s for i in range(ks))
    if exp != list(alive):
        return False, None, None
    # maximality: the comb cannot be extended inside the pruned receptive field arbitrarily; any
    # suffix of the comb is legal (receptive-field pruning), so nothing else to check.
    return True, s, ks


def r_time_expected(K, r_prune, g_prune):
    glen = max(math.ceil(math.log(K, 2)), 1)
    g = min(g_prune, glen - 1)     # the last gamma element is kept alive
    r = min(r_prune, K - 1)        # the last beta element is kept alive
    s = 2 ** g
    alive = [j for j in range(K) if j >= r and (K - 1 - j) % s == 0]
    return alive, s


# ------------------------------------------------------------------------------------------------
# export helpers
# ------------------------------------------------------------------------------------------------
def sync_exported_bn(pit, exported):
    """C01's precondition: every BatchNorm that export re-creates after a searchable layer is given
    the statistics (and affine parameters) of the BatchNorm it replaces, sliced by the layer's
    output mask.  Returns the number of BatchNorms synchronised."""
    n = 0
    emods = dict(exported.named_modules())
    graph = getattr(exported, 'graph', None)
    for name, layer in pit_layers(pit):
        bn = getattr(layer, 'bn', None)
        if bn is None or getattr(layer, 'fold_bn', False):
            continue
        # the re-created BatchNorm is found by its position (the BatchNorm module(s) consuming the
        # exported layer's output in the fx graph), falling back to PLiNIO's naming convention
        targets = []
        if graph is not None:
            for node in graph.nodes:
                if node.op == 'call_module' and str(node.target) == name:
                    for u in node.users:
                        if u.op == 'call_module' and isinstance(
                                emods.get(str(u.target)), (nn.BatchNorm1d, nn.BatchNorm2d)):
                            targets.append(emods[str(u.target)])
        if not targets and emods.get(name + '_exported_bn') is not None:
            targets = [emods[name + '_exported_bn']]
        mask = layer.features_mask.bool()
        done = set()
        for ebn in targets:
            if id(ebn) in done:
                continue
            done.add(id(ebn))
            with torch.no_grad():
                ebn.running_mean.copy_(bn.running_mean[mask])
                ebn.running_var.copy_(bn.running_var[mask])
                if bn.affine:
                    ebn.weight.copy_(bn.weight[mask])
                    ebn.bias.copy_(bn.bias[mask])
            n += 1
    return n


def close(a, b, rtol=1e-4):
    if a.shape != b.shape:
        return False, float('inf')
    d = (a - b).abs().max().item() if a.numel() else 0.0
    bound = rtol * (1.0 + a.abs().max().item() if a.numel() else 1.0)
    return (d <= bound) and bool(torch.isfinite(b).all()), d


# ------------------------------------------------------------------------------------------------
# R-cost: cost of a plain PyTorch network from layer attributes + observed output shapes
# ------------------------------------------------------------------------------------------------
def _prod(xs):
    p = 1
    for x in xs:
        p *= int(x)
    return p


def layer_cost(kind, m, out_shape):
    """params / params_no_bias / ops / ops_no_bias of one plain conv / linear from its attributes."""
    if isinstance(m, (nn.Conv1d, nn.Conv2d)):
        cin, cout, g = m.in_channels, m.out_channels, m.groups
        kk = _prod(m.kernel_size)
        w = cout * (cin // g) * kk
        b = cout if m.bias is not None else 0
        spatial = _prod(out_shape[2:])
    elif isinstance(m, nn.Linear):
        w = m.in_features * m.out_features
        b = m.out_features if m.bias is not None else 0
        spatial = 1
    else:
        return 0
    if kind == 'params':
        return w + b
    if kind == 'params_no_bias':
        return w
    if kind == 'ops':
        return (w + b) * spatial
    if kind == 'ops_no_bias':
        return w * spatial
    raise ValueError(kind)


def net_cost(kind, net, xs, only_names=None, per_call=None):
    """R-cost of a plain network: sum over conv/linear layers (optionally restricted to the given
    qualified names); per-invocation metrics (ops*) count every call site, shared ones (params*)
    every module once."""
    if per_call is None:
        per_call = kind.startswith('ops')
    calls = []
    hooks = []
    for name, m in net.named_modules():
        if isinstance(m, (nn.Conv1d, nn.Conv2d, nn.Linear)):
            hooks.append(m.register_forward_hook(
                lambda mod, inp, out, name=name: calls.append((name, mod, tuple(out.shape)))))
    with torch.no_grad():
        net(*xs)
    for h in hooks:
        h.remove()
    total = 0
    seen = set()
    for name, m, shp in calls:
        if only_names is not None and name not in only_names:
            continue
        if not per_call:
            if name in seen:
                continue
            seen.add(name)
        total += layer_cost(kind, m, shp)
    return total, len(calls)


def conv_linear_numel(net):
    tot = 0
    for m in net.modules():
        if isinstance(m, (nn.Conv1d, nn.Conv2d, nn.Linear)):
            tot += sum(p.numel() for p in m.parameters(recurse=False))
    return tot


def is_unsupported(exc):
    s = str(exc)
    return any(mk in s for mk in UNSUPPORTED_MARKERS)


# ------------------------------------------------------------------------------------------------
# program-level analysis (independent of PLiNIO's graph passes)
# ------------------------------------------------------------------------------------------------
def width_groups(prog):
    """Union-find over layer names whose output width is tied together by the dataflow (residual
    sums, depthwise convolutions, time-axis concat); returns (groups, frozen_layers) where
    frozen_layers are the layers tied to a network input or to the network output."""
    parent = {}

    def find(a):
        parent.setdefault(a, a)
        while parent[a] != a:
            parent[a] = parent[parent[a]]
            a = parent[a]
        return a

    def union(a, b):
        ra, rb = find(a), find(b)
        if ra != rb:
            parent[ra] = rb
    ties = {f'x{i}': {'@input'} for i in range(len(prog['inputs']))}
    find('@input')
    ncat = 0
    cat_srcs = {}
    for op in prog['ops']:
        k = op['op']
        if k == 'conv' and not op.get('dw'):
            t = {op['name']}
        elif k == 'lin':
            t = {op['name']}
        elif k == 'conv':
            t = set(ties[op['src']]) | {op['name']}
        elif k in ('act', 'pool', 'bn', 'flat', 'squeeze'):
            t = set(ties[op['src']])
        elif k == 'add' or (k == 'cat' and op.get('axis', op['dim']) != 1):
            t = set()
            for s in op['srcs']:
                t |= ties[s]
        elif k == 'cat':
            ncat += 1
            t = {f'@cat{ncat}'}
            cat_srcs[f'@cat{ncat}'] = [set(ties[s_]) for s_ in op['srcs']]
        else:
            raise ValueError(k)
        for a in t:
            find(a)
        tl = list(t)
        for a in tl[1:]:
            union(tl[0], a)
        ties[op['out']] = t
    # a layer invoked more than once has one input mask: the tensors feeding its call sites share
    # their width group
    first_src = {}
    for op in prog['ops']:
        if op['op'] in ('conv', 'lin'):
            f = first_src.setdefault(op['name'], op['src'])
            if f != op['src']:
                ta, tb = list(ties[f]), list(ties[op['src']])
                if ta and tb:
                    union(ta[0], tb[0])
    out_t = set(ties[prog['out']])
    if prog.get('out2'):
        out_t |= set(ties[prog['out2']])
    for a in out_t:
        union('@output', a)
    find('@output')
    # a channel concat that reaches the network output fixes the width of every tensor it
    # concatenates (nested concats: to a fixed point)
    changed = True
    while changed:
        changed = False
        for cname, srcs in cat_srcs.items():
            if find(cname) == find('@output'):
                for t in srcs:
                    for a in t:
                        if find(a) != find('@output'):
                            union('@output', a)
                            changed = True
    frozen_roots = {find('@input'), find('@output')}
    layers = {op['name'] for op in prog['ops'] if op['op'] in ('conv', 'lin')}
    frozen = {l for l in layers if l in parent and find(l) in frozen_roots}
    groups = {}
    for l in layers:
        if l in parent:
            groups.setdefault(find(l), set()).add(l)
    return groups, frozen


def tensor_origins(prog):
    """origin class of every tensor: input / search / fixed / cat / mixed (program-level)."""
    org = {f'x{i}': 'input' for i in range(len(prog['inputs']))}
    excluded = set(prog.get('excluded', ()))
    for op in prog['ops']:
        k = op['op']
        if k in ('conv', 'lin'):
            fixed = op['name'] in excluded or op.get('fixed')
            if k == 'conv' and op.get('dw') and not fixed:
                o = org[op['src']]
            else:
                o = 'fixed' if fixed else 'search'
        elif k in ('act', 'pool', 'bn', 'flat', 'squeeze'):
            o = org[op['src']]
        elif k == 'add':
            os_ = [org[s] for s in op['srcs']]
            o = 'cat' if 'cat' in os_ else ('fixed' if 'fixed' in os_ else
                                            ('input' if 'input' in os_ else 'mixed'))
        elif k == 'cat':
            o = 'cat' if op.get('axis', op['dim']) == 1 else 'mixed'
        org[op['out']] = o
    return org


def r_alive(prog, layer_masks, fixed_layers=(), shapes=None, one_to_one_is_dw=False):
    """R-alive: forward propagation of alive-channel vectors over the *program* (my own dataflow
    model, not PLiNIO's graph passes).

    layer_masks: name -> list of 0/1 (the layer's own binarised output mask); layers in
    `fixed_layers` (excluded / not converted) are all-alive.  shapes: tensor -> shape (no batch).
    Returns (alive, findings, taint): alive[t] is the list of 0/1 per feature of tensor t;
    findings are the places where the masks themselves are inconsistent with the dataflow (add
    operands that disagree, a depthwise mask that differs from its input, a fixed layer fed by a
    pruned tensor); taint[t] is the set of such inconsistency kinds upstream of t (since the last
    features-defining layer), where "the alive features of the tensor" is no longer well defined."""
    shapes = shapes or pitgen.tensor_shapes(prog)
    alive, taint, findings = {}, {}, []
    org = tensor_origins(prog)
    for i, s in enumerate(prog['inputs']):
        alive[f'x{i}'] = [1] * s[0]
        taint[f'x{i}'] = set()
    fixed_layers = set(fixed_layers)
    for op in prog['ops']:
        k = op['op']
        if k in ('conv', 'lin'):
            src = op['src']
            width = op['cout'] if k == 'conv' else op['fout']
            if op['name'] in fixed_layers:
                a, t = [1] * width, set()
                if not all(alive[src]):
                    findings.append({'kind': 'excluded-consumer', 'op': op['name'],
                                     'src_origin': org[src], 'src_alive': alive[src]})
                    t = {'excluded-consumer'}
            elif k == 'conv' and (op.get('dw') or (one_to_one_is_dw and op['cin'] == op['cout'] == 1)):
                # (PLiNIO's pattern test groups == in == out also holds for a 1 -> 1 convolution)
                a, t = list(layer_masks[op['name']]), set(taint[src])
                if a != alive[src]:
                    kind = 'dw:' + org[src]
                    findings.append({'kind': kind, 'op': op['name'], 'own_mask': a,
                                     'src_alive': alive[src]})
                    t.add(kind)
            else:
                a, t = list(layer_masks[op['name']]), set()
        elif k in ('act', 'pool', 'bn', 'squeeze'):
            a, t = alive[op['src']], set(taint[op['src']])
        elif k == 'flat':
            shp = shapes[op['src']]
            n = 1
            for x in shp[1:]:
                n *= x
            a = [v for v in alive[op['src']] for _ in range(n)]
            t = set(taint[op['src']])
        elif k == 'add' or (k == 'cat' and op.get('axis', op['dim']) != 1):
            vs = [alive[s_] for s_ in op['srcs']]
            t = set()
            for s_ in op['srcs']:
                t |= taint[s_]
            a = vs[0]
            if any(v != vs[0] for v in vs[1:]):
                os_ = sorted(org[s_] for s_ in op['srcs'])
                worst = next((o for o in ('cat', 'fixed', 'input') if o in os_), 'search')
                kind = ('add:' if k == 'add' else 'tcat:') + worst
                findings.append({'kind': kind, 'op': op['out'], 'operand_origins': os_,
                                 'operand_alive': vs})
                t.add(kind)
                a = [int(any(col)) for col in zip(*vs)]
        elif k == 'cat':
            a, t = [], set()
            for s_ in op['srcs']:
                a = a + alive[s_]
                t |= taint[s_]
        else:
            raise ValueError(k)
        alive[op['out']] = a
        taint[op['out']] = t
    return alive, findings, taint
