"""In-situ monitors shared by several checks: class-level wrappers around real PLiNIO functions that
judge *every* call any workload makes (the generated ones and the repository's own test-suite run
as a workload, vf/suitewl.py), not only the calls the harness makes itself.

Discipline (same as the per-property wrappers in vf/props): named predicate, evaluation counter,
witness with a `sig`, never raise into the observed code, never change what it returns.  A monitor
that meets inputs outside its property's quantifier (non-finite architectural parameters after a
diverged optimisation) counts the call as `out_of_scope` and says nothing.
"""
import math

import torch

_installed = set()
_seen = set()


def _once(key):
    if key in _seen:
        return False
    if len(_seen) < 5000:
        _seen.add(key)
    return True


def _finite_params(mod):
    try:
        for p in mod.parameters():
            if not bool(torch.isfinite(p).all()):
                return False
    except Exception:
        return True
    return True


def install_features_mask(ctx, prop='C08'):
    """C08 in situ: the discrete (binarised) output-features mask of every PIT layer is binary and keeps
    at least one feature; a frozen masker keeps every feature."""
    if 'features_mask' in _installed:
        return
    _installed.add('features_mask')
    from plinio.methods.pit.nn import PITConv1d, PITConv2d, PITLinear
    from plinio.methods.pit.nn.features_masker import PITFrozenFeaturesMasker

    def wrap(cls):
        orig = cls._features_mask

        def monitored(self, discrete):
            res = orig(self, discrete)
            if not discrete:
                return res
            try:
                fm = self.out_features_masker
                alpha = getattr(fm, 'alpha', None)
                if alpha is not None and not bool(torch.isfinite(alpha).all()):
                    ctx.count('insitu_out_of_scope_inputs')
                    return res
                ctx.mon('c08.features_mask_contract')
                v = res.detach()
                binary = bool(((v == 0) | (v == 1)).all())
                alive = float(v.sum())
                frozen = isinstance(fm, PITFrozenFeaturesMasker)
                ok = binary and alive >= 1 and (not frozen or alive == v.numel())
                if not ok and _once(('fm', cls.__name__, tuple(v.flatten().tolist()[:64]))):
                    ctx.violation('features-mask-contract', {
                        'sig': 'features-mask:' + ('not-binary' if not binary else
                                                   'frozen-not-full' if alive >= 1 else 'empty'),
                        'layer_type': cls.__name__, 'mask': v, 'alpha': alpha, 'frozen': frozen},
                        prop=prop)
            except Exception as e:       # the monitor must never disturb the observed code
                ctx.count('insitu_monitor_errors')
                ctx.extra.setdefault('insitu_first_error', repr(e)[:200])
            return res
        cls._features_mask = monitored
    for c in (PITConv1d, PITConv2d, PITLinear):
        wrap(c)


def install_model_cost(ctx, prop='C12'):
    """C12 in situ: every single-metric cost any DNAS model computes is a finite non-negative scalar
    (architectural parameters finite)."""
    if 'model_cost' in _installed:
        return
    _installed.add('model_cost')
    from plinio.methods import PIT, MPS, SuperNet
    classes = [PIT, MPS, SuperNet]
    try:
        from plinio.methods import ODiMO_MPS
        if ODiMO_MPS._get_single_cost is not MPS._get_single_cost:
            classes.append(ODiMO_MPS)
    except Exception:
        pass

    def wrap(cls):
        orig = cls._get_single_cost

        def monitored(self, *a, **kw):
            res = orig(self, *a, **kw)
            try:
                if not _finite_params(self):
                    ctx.count('insitu_out_of_scope_inputs')
                    return res
                ctx.mon('c12.insitu_cost_value')
                v = res.detach() if isinstance(res, torch.Tensor) else torch.tensor(float(res))
                ok = v.numel() == 1 and bool(torch.isfinite(v).all()) and float(v) >= 0
                if not ok and _once(('cost', cls.__name__, str(v.flatten().tolist()[:4]))):
                    ctx.violation('insitu-cost-value', {
                        'sig': 'cost-not-finite-nonneg:' + cls.__name__, 'value': v,
                        'model': cls.__name__}, prop=prop)
            except Exception as e:
                ctx.count('insitu_monitor_errors')
                ctx.extra.setdefault('insitu_first_error', repr(e)[:200])
            return res
        cls._get_single_cost = monitored
    for c in classes:
        wrap(c)


BUILTIN_SPECS = ('params', 'params_no_bias', 'ops', 'ops_no_bias', 'params_bit', 'ops_bit',
                 'gap8_latency', 'mpic_latency', 'mpic_energy', 'ne16_latency', 'diana_latency')


def builtin_specs():
    """name -> CostSpec object for every built-in specification importable on this tree"""
    import importlib
    out = {}
    pc = importlib.import_module('plinio.cost')
    for name in BUILTIN_SPECS:
        obj = getattr(pc, name, None)
        if obj is None:
            try:
                m = importlib.import_module('plinio.cost.' + name)
                obj = getattr(m, name, None)
            except Exception:
                obj = None
        if obj is not None and hasattr(obj, 'data'):
            out[name] = obj
    return out


def install_costfn_value(ctx, prop='C16'):
    """C16 in situ: every call of a cost function registered in a built-in specification returns a
    finite non-negative value (whenever the counts it is shown are finite and non-negative)."""
    if 'costfn_value' in _installed:
        return
    _installed.add('costfn_value')

    def scope_ok(spec):
        for k in ('in_channels', 'out_channels', 'in_features', 'out_features'):
            v = spec.get(k) if isinstance(spec, dict) else None
            if isinstance(v, torch.Tensor):
                if not bool(torch.isfinite(v).all()) or bool((v < 0).any()):
                    return False
            elif isinstance(v, (int, float)) and (not math.isfinite(v) or v < 0):
                return False
        return True

    def wrap(sname, fn):
        if getattr(fn, '_vf_costfn', False):
            return fn

        def monitored(spec):
            res = fn(spec)
            try:
                if not scope_ok(spec):
                    ctx.count('insitu_out_of_scope_inputs')
                    return res
                ctx.mon('c16.insitu_costfn_value')
                v = res.detach() if isinstance(res, torch.Tensor) else torch.tensor(float(res))
                ok = bool(torch.isfinite(v).all()) and bool((v >= 0).all())
                if not ok and _once(('fn', sname, getattr(fn, '__name__', '?'))):
                    brief = {k: spec.get(k) for k in (
                        'in_channels', 'out_channels', 'in_features', 'out_features', 'kernel_size',
                        'groups', 'output_shape', 'w_precision', 'in_precision', 'a_precision')
                        if isinstance(spec, dict) and k in spec}
                    ctx.violation('insitu-costfn-value', {
                        'sig': f'costfn-not-finite-nonneg:{sname}:{getattr(fn, "__name__", "?")}',
                        'value': v, 'spec': brief}, prop=prop)
            except Exception as e:
                ctx.count('insitu_monitor_errors')
                ctx.extra.setdefault('insitu_first_error', repr(e)[:200])
            return res
        monitored._vf_costfn = True
        monitored._vf_wrapped = fn
        monitored.__name__ = getattr(fn, '__name__', 'cost_fn')
        return monitored
    for sname, cs in builtin_specs().items():
        for pat, lst in cs.data.items():
            cs.data[pat] = [(constr, wrap(sname, fn)) for constr, fn in lst]


def _obs_snapshot(model):
    sd = {}
    for k, v in model.state_dict().items():
        sd[k] = v.detach().clone() if isinstance(v, torch.Tensor) else v
    flags = {n: bool(m.training) for n, m in model.named_modules()}
    rg = {n: bool(p.requires_grad) for n, p in model.named_parameters()}
    return sd, flags, rg


def _same_tensor(a, b):
    if isinstance(a, torch.Tensor) and isinstance(b, torch.Tensor):
        if a.shape != b.shape or a.dtype != b.dtype:
            return False
        if a.is_floating_point():
            return bool(((a == b) | (torch.isnan(a) & torch.isnan(b))).all())
        return bool(torch.equal(a, b))
    return a == b


def install_observers(ctx, prop='C18', methods=('export', 'summary', 'get_cost')):
    """C18 in situ: every outermost call of export() / summary() / get_cost() on a PIT, MPS or SuperNet
    model leaves its state_dict (bit-wise), the training flag of every sub-module and the
    requires_grad flag of every parameter as they were."""
    if 'observers' in _installed:
        return
    _installed.add('observers')
    from plinio.methods import PIT, MPS, SuperNet
    depth = {'n': 0}

    def wrap(cls, mname):
        orig = getattr(cls, mname)

        def monitored(self, *a, **kw):
            if depth['n'] > 0:
                return orig(self, *a, **kw)
            depth['n'] += 1
            try:
                try:
                    before = _obs_snapshot(self)
                except Exception:
                    before = None
                res = orig(self, *a, **kw)
            finally:
                depth['n'] -= 1
            if before is None:
                return res
            try:
                after = _obs_snapshot(self)
                ctx.mon('c18.insitu_observer')
                bad = []
                if before[0].keys() != after[0].keys():
                    bad.append(('state_dict-keys', sorted(set(before[0]) ^ set(after[0]))[:6]))
                else:
                    ch = [k for k in before[0] if not _same_tensor(before[0][k], after[0][k])]
                    if ch:
                        bad.append(('state_dict', ch[:6]))
                fl = [n for n in before[1] if after[1].get(n) != before[1][n]]
                if fl or before[1].keys() != after[1].keys():
                    bad.append(('training-flags', fl[:6]))
                rg = [n for n in before[2] if after[2].get(n) != before[2][n]]
                if rg or before[2].keys() != after[2].keys():
                    bad.append(('requires_grad', rg[:6]))
                if bad and _once(('obs', cls.__name__, mname, str(bad)[:200])):
                    ctx.violation('insitu-observer', {
                        'sig': f'observer-changed-model:{cls.__name__}.{mname}:' +
                               '+'.join(b[0] for b in bad),
                        'model': cls.__name__, 'call': mname, 'changed': bad,
                        'model_training': bool(self.training)}, prop=prop)
            except Exception as e:
                ctx.count('insitu_monitor_errors')
                ctx.extra.setdefault('insitu_first_error', repr(e)[:200])
            return res
        setattr(cls, mname, monitored)
    for c in (PIT, MPS, SuperNet):
        for mname in methods:
            if mname in c.__dict__ or hasattr(c, mname):
                wrap(c, mname)
