"""Neutral prefixes: calls that must not change what a NAS model shows afterwards (observers, mode
round trips, an eval-mode forward, a state_dict round trip), executed right after conversion - i.e.
while the masks / coefficients still have their initial values - in half of the cases of the
checks that enable them.  The checks then assign masks / coefficients and observe as usual: anything
cached from the initial state (a mask, a cost term, a sample, a shape) shows up as a violation of the
check's own oracle.  Nothing here decides anything by itself."""
import random

import torch

_state = {'ctx': None}
OPS = ['summary', 'str', 'cost', 'export', 'eval_forward', 'mode_round_trip', 'state_round_trip',
       'iterate_parameters']


def enable(ctx):
    _state['ctx'] = ctx


def maybe_warm(nas, xs, seed, allow_export=True):
    ctx = _state['ctx']
    if ctx is None or (int(seed) // 11) % 2 == 0:
        return None
    rng = random.Random(int(seed) * 31 + 7)
    seq = [rng.choice(OPS) for _ in range(rng.randint(1, 4))]
    flags = {m: m.training for m in nas.modules()}
    for op in seq:
        if op == 'export' and not allow_export:
            continue
        if op == 'summary':
            nas.summary()
        elif op == 'str':
            str(nas)
        elif op == 'cost':
            spec = getattr(nas, '_cost_specification', None)
            if isinstance(spec, dict):
                for nm in spec:
                    nas.get_cost(nm)
            else:
                nas.cost
        elif op == 'export':
            nas.export()
        elif op == 'eval_forward':
            nas.eval()
            with torch.no_grad():
                nas(*xs)
        elif op == 'mode_round_trip':
            nas.train(not nas.training)
            nas.train(not nas.training)
        elif op == 'state_round_trip':
            sd = {k: v.detach().clone() for k, v in nas.state_dict().items()}
            nas.load_state_dict(sd)
        elif op == 'iterate_parameters':
            list(nas.named_nas_parameters())
            list(nas.named_net_parameters())
        for m, f in flags.items():
            m.training = f
        ctx.cls('neutral-prefix:' + op)
    ctx.count('neutral_prefixes')
    return seq


def example_batch(seed):
    """Number of samples of the example handed to the conversion (`input_example`): 1 in half of the
    cases, 2..4 otherwise.  The example only fixes shapes - costs are per inference, masks and
    exported sizes cannot depend on how many samples it holds - so every oracle stays as it is."""
    b = [1, 2, 1, 3, 1, 4][(int(seed) // 5) % 6]
    ctx = _state['ctx']
    if ctx is not None:
        ctx.cls('conversion-example-batch:%d' % b)
    return b


def maybe_clone(nas, seed):
    """In a sixth of the cases the check goes on with a `copy.deepcopy` of the freshly converted model
    (the usual snapshot / best-model idiom) while the *original's* architectural parameters are
    scrambled: whatever a copy still reads from the original (a closure, a bound method, a module
    reference kept outside the module tree) then disagrees with the copy's own parameters, and the
    check's own oracle sees it.  A deep copy is a model of its own by PyTorch's contract, so no
    oracle changes."""
    ctx = _state['ctx']
    if ctx is None or (int(seed) // 13) % 6 != 2:
        return nas
    import copy
    try:
        clone = copy.deepcopy(nas)
    except Exception as e:     # (deep copies fail after a grad-mode forward; not right after conversion)
        ctx.count('clone_failed')
        ctx.extra.setdefault('clone_first_error', repr(e)[:160])
        return nas
    g = torch.Generator().manual_seed(int(seed) % (2 ** 31) + 99)
    with torch.no_grad():
        for _n, p in nas.named_nas_parameters():
            p.copy_(torch.randn(p.shape, generator=g).to(p.dtype) * 2.0)
    clone.train(nas.training)
    ctx.cls('neutral-prefix:deepcopy-original-scrambled')
    ctx.count('clones')
    return clone


def maybe_freeze(nas, seed):
    """In a third of the cases one of the trainability controls is applied after the architectural
    parameters were assigned (the phase of a search in which a parameter group is frozen): whether
    a mask / coefficient is *trainable* must not change what it *is* - costs, summary and export
    read values, not requires_grad flags."""
    ctx = _state['ctx']
    if ctx is None:
        return None
    r = (int(seed) // 17) % 6
    what = None
    if r == 1:
        nas.train_net_only()
        what = 'train_net_only'
    elif r == 3:
        nas.train_nas_only()
        what = 'train_nas_only'
    elif r == 5 and hasattr(type(nas), 'train_features'):
        nas.train_features = False
        what = 'train_features=False'
    if what:
        ctx.cls('neutral-suffix:' + what)
    return what
