"""Deterministic construction of PIT / MPS / SuperNet wrappers from a JSON configuration (C17, C18):
two calls with the same configuration give two independent, bit-identical models - the "fresh
wrapper of the same seed network configured through the public API exactly as the first"."""
import random

import torch

from vf import pitlib, mpslib, snlib
from vf.gen import pitgen


def make(cfg):
    from plinio import cost as pc
    kind = cfg['kind']
    rng = random.Random(cfg['prog_seed'])
    if kind == 'pit':
        prog = pitgen.gen_valid_program(rng, family=cfg.get('family', '1d'),
                                        opts={'p_fixed_stem': 0.2, 'allow_fixed': True})
        specs = {'params': pc.params, 'ops': pc.ops}
        model, nas, _ = pitlib.convert_pit(prog, cfg['seed'], fold_bn=cfg.get('fold', False),
                                           discrete_cost=cfg.get('discrete_cost', False),
                                           full_cost=cfg.get('full_cost', False), cost=specs,
                                           train_mode=cfg.get('train', True))
        xs = pitgen.example_inputs(prog, 3, cfg['seed'] + 11)
        names = ['params', 'ops']
        alt_spec = {'params': pc.params_no_bias, 'ops': pc.ops_no_bias}
    elif kind in ('mps-layer', 'mps-channel'):
        prog = mpslib.gen_mps_program(rng, small=True)
        specs = {'params_bit': pc.params_bit, 'ops_bit': pc.ops_bit}
        pc_ = kind == 'mps-channel'
        alt_spec = {'params_bit': pc.ops_bit, 'ops_bit': pc.params_bit}
        extra = {}
        if cfg.get('mps_exclude'):
            # a layer the NAS does not optimise (excluded by name): under full_cost it contributes
            # a constant cost; plain params/ops metrics, which are defined for un-quantized layers
            convs = [op['name'] for op in prog['ops'] if op['op'] == 'conv' and not op.get('reuse')]
            extra['exclude_names'] = (rng.choice(convs),)
            specs = {'params': pc.params, 'ops': pc.ops}
            alt_spec = {'params': pc.params_no_bias, 'ops': pc.ops_no_bias}
        model, nas, _ = mpslib.convert_mps(
            prog, cfg['seed'], tuple(cfg.get('w_prec', (0, 2, 4, 8) if pc_ else (2, 4, 8))),
            tuple(cfg.get('a_prec', (2, 4, 8))), per_channel=pc_, cost=specs,
            temperature=cfg.get('temperature', 1.0), gumbel=cfg.get('gumbel', False),
            hard=cfg.get('hard', False), disable_sampling=cfg.get('disable_sampling', False),
            train_mode=cfg.get('train', True), full_cost=cfg.get('full_cost', False), extra=extra)
        xs = [mpslib.in_range_inputs(prog, cfg['seed'] + 11, 3)]
        names = list(specs)
    elif kind == 'supernet':
        prog = snlib.gen_sn_desc(rng, max_branches=4)
        prog['gumbel'] = cfg.get('gumbel', False)
        prog['hard'] = cfg.get('hard', False)
        specs = {'params': pc.params, 'ops': pc.ops}
        model, nas = snlib.convert_sn(prog, cfg['seed'], cost=specs,
                                      full_cost=cfg.get('full_cost', False))
        nas.train(cfg.get('train', True))
        xs = [snlib.sn_input(prog, cfg['seed'] + 11, 3)]
        names = ['params', 'ops']
        alt_spec = {'params': pc.params_no_bias, 'ops': pc.ops_no_bias}
    else:
        raise ValueError(kind)
    return {'nas': nas, 'xs': xs, 'cost_names': names, 'prog': prog, 'specs': specs,
            'alt_specs': alt_spec, 'kind': kind}


def apply_option(nas, kind, opt):
    k, v = opt
    if k in ('temperature', 'hard', 'gumbel', 'disable_sampling'):
        if kind == 'supernet' and k not in ('temperature', 'hard'):
            return False
        if kind == 'pit':
            return False
        nas.update_softmax_options(**{k: v})
    elif k in ('discrete_cost', 'train_features', 'train_rf', 'train_dilation'):
        if kind != 'pit':
            return False
        setattr(nas, k, v)
    elif k == 'mode':
        nas.train(v == 'train')
    elif k in ('train_nas_only', 'train_net_only', 'train_net_and_nas'):
        getattr(nas, k)()
    else:
        raise ValueError(k)
    return True


def random_options(rng, kind, n):
    pool = [('mode', 'train'), ('mode', 'eval')]
    if kind == 'pit':
        pool += [('discrete_cost', True), ('discrete_cost', False), ('train_rf', False),
                 ('train_features', True)]
    else:
        pool += [('temperature', round(10 ** rng.uniform(-1.3, 1.3), 4)),
                 ('temperature', round(10 ** rng.uniform(-1.3, 1.3), 4)), ('hard', True),
                 ('hard', False)]
        if kind != 'supernet':
            pool += [('gumbel', False), ('gumbel', True), ('disable_sampling', True),
                     ('disable_sampling', False)]
    return [rng.choice(pool) for _ in range(n)]


def randomize_nas_params(nas, rng, prune=False):
    """move the architectural parameters away from their initial values (deterministically);
    prune=True (PIT): mask values uniform in [0, 1.2], so that a good share of the channels,
    time-steps and dilation steps is actually pruned (below the 0.5 threshold)"""
    g = torch.Generator().manual_seed(rng.randrange(2 ** 31))
    with torch.no_grad():
        for p in nas.nas_parameters():
            if prune:
                p.data.copy_(torch.rand(p.shape, generator=g) * 1.2)
            else:
                p.data.add_(torch.randn(p.shape, generator=g) * 0.4)


def train_steps(nas, xs, k, seed, lr=0.05):
    """k optimiser steps on all trainable parameters with random data (loss + cost)"""
    params = [p for p in nas.parameters() if p.requires_grad]
    if not params or k == 0:
        return
    opt = torch.optim.SGD(params, lr=lr, momentum=0.0)
    g = torch.Generator().manual_seed(seed)
    for i in range(k):
        data = [x + 0.1 * torch.randn(x.shape, generator=g) for x in xs]
        torch.manual_seed(seed + i)
        y = nas(*data)
        c = nas.get_cost(next(iter(nas._cost_specification))) if isinstance(
            nas._cost_specification, dict) else nas.cost
        loss = y.pow(2).mean() + 1e-4 * c
        if not loss.requires_grad:
            # (a frozen group + a non-differentiable selection: nothing to step on - same for a twin)
            continue
        opt.zero_grad()
        loss.backward()
        opt.step()
